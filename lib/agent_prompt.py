#!/usr/bin/env python3
"""prints the prompt for a seeded-break sub-agent: property text + worktree path only"""
import json, sys
pid = sys.argv[1]
n = sys.argv[2] if len(sys.argv) > 2 else "2"
WT = sys.argv[3] if len(sys.argv) > 3 else "/tmp/wt"
OUT = sys.argv[4] if len(sys.argv) > 4 else "/tmp/seeded_out"
for l in open('/verif/properties.jsonl'):
    p = json.loads(l)
    if p['id'] == pid:
        break
print(f"""You are helping test a verification effort for the Rust repository facebook/winterfell (a STARK prover/verifier library). You have your own scratch git worktree of the repository at {WT}/{pid} (toolchain and all dependencies are available offline; always pass --offline to cargo and set CARGO_NET_OFFLINE=true; a Cargo.lock is already in the worktree). Work ONLY inside {WT}/{pid} and write your deliverables to {OUT}/{pid}/ . Do not read or touch /verif or /repo.

Here is a semantic property of winterfell that should hold:

  Title: {p['title']}
  Statement: {p['statement']}
  Quantified over: {p['quantifier']['text']}
  Relevant files: {', '.join(p['anchors']['files'])}

Your task: produce {n} DIFFERENT, independent, realistic source changes (bugs a developer could plausibly introduce: an off-by-one, a wrong boundary, a dropped check, a mis-ordered step, a wrong constant, a missed special case, an optimisation that is wrong for some inputs) to the library source in the worktree, each of which
  (a) BREAKS the property above,
  (b) still COMPILES and still PASSES the entire existing test suite (`cargo test --workspace --offline` in the worktree; all 244 tests must pass — check this yourself), and
  (c) needs something SPECIFIC to manifest — an unusual input, a particular size/threshold, a particular interleaving or thread count, a multi-step sequence of operations, a rarely used parameter combination, or two cooperating sites that each look fine alone — NOT something that ordinary use or the most obvious smoke test would expose at once. Avoid changes that break nearly every input. Do not modify tests, and do not add cfg flags or environment-variable triggers; the change must be an ordinary code change.

For each change i (1..{n}) deliver in {OUT}/{pid}/change<i>/ :
  - patch.diff  : `git diff` of the library change only (relative to HEAD, applies with `git apply` at the repo root),
  - a demonstration: EITHER a new Rust test file/integration test OR a tiny standalone program (put it in demo/ with exact instructions) that FAILS with the change applied and PASSES on the unmodified tree. The demonstration must use only the public API where possible. Give the exact command to run it in notes.md,
  - notes.md : what the change is, why it breaks the property, what specific condition it needs to manifest, the commands you ran and their results (test suite pass with the change; demo fails with change; demo passes without change).
After producing each patch, revert the worktree (git checkout -- . && git clean -fd except your own demo files as needed) so the next change starts from a clean HEAD; the patches must be independent. To save disk, use the default target dir inside the worktree and do not create other copies of the repository.

Finish with a short summary listing each change in one line. Be efficient: do not spend time on anything else.""")
