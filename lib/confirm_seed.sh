#!/bin/bash
# confirm_seed.sh <worktree> <change_dir> <crate_dir> <pkg> [cargo test extra args...]
# Confirms a seeded change independently: demo passes on the clean tree, fails with the patch,
# and the whole existing suite still passes with the patch. Prints a one-line JSON verdict.
set -u
WT=$1; CH=$2; CRATE=$3; PKG=$4; shift 4
export CARGO_NET_OFFLINE=true
cd "$WT" || exit 2
git checkout -q -- . && git clean -fdq -e target -e Cargo.lock -e c04_common
mkdir -p "$CRATE/tests"
demos=$(ls "$CH"/demo/*.rs "$CH"/*.rs 2>/dev/null)
names=""
for d in $demos; do cp "$d" "$CRATE/tests/"; names="$names --test $(basename "$d" .rs)"; done
cargo test --offline -p "$PKG" $names "$@" >"$CH/confirm_clean.log" 2>&1; clean_rc=$?
git apply "$CH/patch.diff" || { echo "{\"change\":\"$CH\",\"error\":\"patch does not apply\"}"; exit 2; }
cargo test --offline -p "$PKG" $names "$@" >"$CH/confirm_patched.log" 2>&1; patched_rc=$?
for d in $demos; do rm -f "$CRATE/tests/$(basename "$d")"; done
rmdir "$CRATE/tests" 2>/dev/null
cargo test --workspace --offline >"$CH/confirm_suite.log" 2>&1; suite_rc=$?
passed=$(grep -E "^test result: ok" "$CH/confirm_suite.log" | sed -E 's/.* ([0-9]+) passed.*/\1/' | paste -sd+ | bc)
failed=$(grep -E "^test result" "$CH/confirm_suite.log" | sed -E 's/.* ([0-9]+) failed.*/\1/' | paste -sd+ | bc)
git checkout -q -- . && git clean -fdq -e target -e Cargo.lock -e c04_common
echo "{\"change\":\"$CH\",\"demo_clean_rc\":$clean_rc,\"demo_patched_rc\":$patched_rc,\"suite_rc\":$suite_rc,\"suite_passed\":$passed,\"suite_failed\":$failed}"
