#!/usr/bin/env python3
"""seed_batch.py [--shard=i/n] [seed_id ...] : (SEEDRUN_DIR selects the scratch slot) runs lib/seedtest.sh for the given seeds (default: every seed without a
detection result) against the check of the property each breaks, and records the outcome in meta.json"""
import json, os, subprocess, sys, glob
V = os.path.join(os.path.dirname(os.path.abspath(__file__)), "..")
S = os.environ.get("SEEDRUN_DIR", "/tmp/seedrun")
shard = None
argv = [a for a in sys.argv[1:] if not a.startswith("--shard=")]
for a in sys.argv[1:]:
    if a.startswith("--shard="):
        shard = tuple(int(x) for x in a[8:].split("/"))
ids = argv or [os.path.basename(d.rstrip("/")) for d in sorted(glob.glob(os.path.join(V, "seeded", "*/")))]
todo = []
for sid in ids:
    m = json.load(open(os.path.join(V, "seeded", sid, "meta.json")))
    if m.get("detected_by") and not argv:
        continue
    todo.append(sid)
if shard:
    todo = [s for i, s in enumerate(todo) if i % shard[1] == shard[0]]
for sid in todo:
    mp = os.path.join(V, "seeded", sid, "meta.json")
    m = json.load(open(mp))
    prop = m["breaks_property"]
    checks = m.get("run_checks") or [prop]
    subprocess.run([os.path.join(V, "lib", "seedtest.sh"), sid] + checks)
    res = [json.loads(l) for l in open(os.path.join(S, "results.jsonl")) if '"seed":"%s"' % sid in l]
    det, missed = [], []
    for c in checks:
        r = [x for x in res if x.get("check") == c]
        if not r:
            continue
        r = r[-1]
        (det if r["rc"] == 1 else missed).append({"check": c, "tier": "quick", "rc": r["rc"], "first_signature": r.get("first", "").strip(),
                                                  "violation_lines": r.get("violation_lines"), "secs": r.get("secs")})
    m["detected_by"] = det
    m["not_detected_by"] = missed
    if any(x.get("error") for x in res[-1:]):
        m["seedtest_error"] = res[-1]["error"]
    json.dump(m, open(mp, "w"), indent=1)
    print(sid, "DETECTED" if det else "MISSED", [d["first_signature"][:80] for d in det], flush=True)
