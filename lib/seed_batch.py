#!/usr/bin/env python3
"""seed_batch.py [seed_id ...] : runs lib/seedtest.sh for the given seeds (default: every seed without a
detection result) against the check of the property each breaks, and records the outcome in meta.json"""
import json, os, subprocess, sys, glob
V = os.path.join(os.path.dirname(os.path.abspath(__file__)), "..")
ids = sys.argv[1:] or [os.path.basename(d.rstrip("/")) for d in sorted(glob.glob(os.path.join(V, "seeded", "*/")))]
for sid in ids:
    mp = os.path.join(V, "seeded", sid, "meta.json")
    m = json.load(open(mp))
    if m.get("detected_by") and not sys.argv[1:]:
        continue
    prop = m["breaks_property"]
    checks = m.get("run_checks") or [prop]
    subprocess.run([os.path.join(V, "lib", "seedtest.sh"), sid] + checks)
    res = [json.loads(l) for l in open("/tmp/seedrun/results.jsonl") if '"seed":"%s"' % sid in l]
    det, missed = [], []
    for c in checks:
        r = [x for x in res if x.get("check") == c]
        if not r:
            continue
        r = r[-1]
        (det if r["rc"] == 1 else missed).append({"check": c, "tier": "quick", "rc": r["rc"], "first_signature": r.get("first", "").strip(),
                                                  "violation_lines": r.get("violation_lines"), "secs": r.get("secs")})
    m["detected_by"] = det
    m["not_detected_by"] = missed
    if any(x.get("error") for x in res[-1:]):
        m["seedtest_error"] = res[-1]["error"]
    json.dump(m, open(mp, "w"), indent=1)
    print(sid, "DETECTED" if det else "MISSED", [d["first_signature"][:80] for d in det], flush=True)
