"""Per-property stage tables. See DESIGN.md section 5 for the oracles."""
from driver import Stage

MIRI_SERIAL = "-Zmiri-disable-isolation"
MIRI_PAR = "-Zmiri-disable-isolation -Zmiri-disable-stacked-borrows -Zmiri-ignore-leaks -Zmiri-permissive-provenance"

PROPS = {}

PROPS["C26"] = dict(
    level="exploration",
    rule="values of every primitive/collection type with boundary bias (every vint64 length boundary exhaustively); "
         "every strict prefix of every encoding; corrupted encodings (huge/odd length prefixes, bad tags, invalid UTF-8) "
         "decoded as 13 types in isolated workers; distinct = distinct (type, encoding) or byte string; non-trivial = non-empty",
    assumptions=["64-bit host: the 'size value does not fit the platform' branch cannot be reached (usize = u64)",
                 "reference vint64 encoder in the harness is the documented format"],
    floor=1000,
    stages=[
        Stage("c26_rt", variant="rel"),
        Stage("c26_rt", variant="chk", args=["--n", "4000"]),
        Stage("c26_hostile", variant="rel", kind="sharded", n=(20000, 400000), mem_gb=4),
        Stage("c26_hostile", variant="chk", kind="sharded", n=(4000, 40000), mem_gb=4),
        Stage("c26_rt", kind="miri", args=["--n", "48"], miri_flags=MIRI_SERIAL, timeout=(900, 1800)),
    ],
)

ASAN_ENV = {"ASAN_OPTIONS": "detect_leaks=0:abort_on_error=1:halt_on_error=1"}

PROPS["C27"] = dict(
    level="exploration",
    rule="differential ReadAdapter-vs-SliceReader: (1) exhaustive over content length <= 8 (thorough 11) x every chunking "
         "composition x every read-size composition x 3 read flavours with probes; (2) random contents <= 4 KiB, chunk "
         "schedules around 1 byte and the 256-byte BufReader, <= 12 ops from 14 kinds; distinct = (chunking, ops); "
         "non-trivial = non-empty content. Also under overflow/debug-assert profile, ASan and Miri.",
    assumptions=["value comparison stops at the first failed read of a sequence (the trait leaves the position unspecified "
                 "after an error); later ops are still executed for panic/UB freedom",
                 "slice/vec lengths are bounded by content length + 560 (SliceReader's own overflow on usize::MAX lengths is "
                 "exercised under C05)"],
    floor=10000,
    stages=[
        Stage("c27_exh", variant="rel"),
        Stage("c27_exh", variant="chk", args=["--n", "7"]),
        Stage("c27_rand", variant="rel", kind="sharded", n=(200000, 5000000)),
        Stage("c27_rand", variant="chk", kind="sharded", n=(50000, 1000000)),
        Stage("c27_rand", variant="asan", kind="sharded", n=(30000, 600000), mem_gb=None, env=ASAN_ENV),
        Stage("c27_rand", kind="miri", args=["--n", "120"], miri_flags=MIRI_SERIAL, timeout=(900, 1800)),
        Stage("c27_exh", kind="miri", args=["--n", "4"], miri_flags=MIRI_SERIAL, timeout=(900, 1800)),
    ],
)

PROPS["C10"] = dict(
    level="exploration",
    rule="(1) lattice: every pair of internal representations within +-6 (thorough +-40) of each representation boundary "
         "(0, 2^32, 2^63, M/2, M-1, M, 2M-1 ...) of f62/f64/f128 for add/sub/mul/==, every point for neg/double/square/inv; "
         "(2) chains of 4..16 operations (19 kinds + mul_small/exp7) over 8 element types starting from "
         "representation-biased operands, every intermediate compared with reference modular arithmetic, `==` compared "
         "with canonical equality, inv/div under a 3 s termination watchdog. evaluation = one operation; distinct = "
         "distinct starting operand triples",
    assumptions=["reference arithmetic (vcommon/refarith.rs, self-tested) is correct",
                 "f62 non-canonical representations are injected through bytes_as_elements within the documented [0,2M) range; "
                 "f64 through from_mont within its documented precondition (< M)",
                 "division by zero is not judged; representation-range excursions are reported as diagnostics only"],
    floor=1000,
    stages=[
        Stage("c10_lattice", variant="rel"),
        Stage("c10_lattice", variant="chk", args=["--n", "3"]),
        Stage("c10_chains", variant="rel", kind="sharded", n=(60000, 1500000), timeout=(300, 1800)),
        Stage("c10_chains", variant="chk", kind="sharded", n=(16000, 200000), timeout=(300, 1800)),
        Stage("c10_chains", kind="miri", args=["--n", "54"], miri_flags=MIRI_SERIAL, timeout=(900, 1800)),
    ],
)

PROPS["C11"] = dict(
    level="exploration",
    rule="constants of f62/f64/f128: Miller-Rabin on the code's modulus bytes, two-adicity by trial division, generator "
         "order against the verified factorisation of p-1, EVERY root-of-unity order 1..two-adicity (exhaustive), code's "
         "phi^d equals the documented reduction polynomial and that polynomial has no root (gcd(x^p-x,f)), Frobenius = "
         "p-th power on sampled/boundary elements; decoders: values {0,1,p-1,p,p+1,2p-1,2p,MAX,..}+random in every "
         "coefficient position through TryFrom<&[u8]>, read_from_bytes, from_random_bytes, TryFrom<u64/u128>, "
         "from_bytes_with_padding, bytes_as_elements, From<u8/u16/u32>, reverse conversions; distinct = distinct inputs",
    assumptions=["factorisations of p-1 embedded in refarith.rs are re-verified at start (product and primality)",
                 "TWO_ADIC_ROOT_OF_UNITY == GENERATOR^k is recorded but not judged (f64 deliberately differs; the property asks for exact order only)"],
    floor=500,
    exhaustive=False,
    stages=[
        Stage("c11", variant="rel"),
        Stage("c11", variant="chk", args=["--n", "10"]),
        Stage("c11", kind="miri", args=["--n", "1"], miri_flags=MIRI_SERIAL, timeout=(900, 1800), tiers=("thorough",)),
    ],
)

PROPS["C13"] = dict(
    level="exploration",
    rule="random polynomial pairs (length 0..40; all-zero, leading-zero, sparse, one-leading-zero modes; representation-"
         "biased coefficients; x = 0 among interpolation points; duplicate roots) over 7 element types; eval, eval_many, "
         "interpolate (+trimmed), interpolate_batch<2,4,8>, add, sub, mul, mul_by_scalar, div (+exact), syn_div, "
         "syn_div_in_place, syn_div_roots_in_place, degree_of, remove_leading_zeros, poly_from_roots vs reference "
         "polynomial arithmetic; distinct = distinct input pairs",
    assumptions=["documented preconditions are respected by the generator (div: non-zero divisor of degree <= dividend; "
                 "syn_div: a >= 1, b != 0, len > a; mul: both operands non-empty)",
                 "results are compared as polynomials (trailing zero coefficients ignored) and by documented length where one is documented"],
    floor=500,
    stages=[
        Stage("c13", variant="rel"),
        Stage("c13", variant="chk", args=["--n", "1500"]),
        Stage("c13", kind="miri", args=["--n", "21"], miri_flags=MIRI_SERIAL, timeout=(900, 1800)),
    ],
)

C14_THREADS_QUICK = (1, 3, 16)
C14_THREADS_ALL = (1, 2, 3, 5, 8, 16)
PROPS["C14"] = dict(
    level="exploration",
    rule="lengths 0..70 exhaustively plus the neighbourhood of every parallel batch boundary (1024*P, 1025*P, 1500*P, 2048*P "
         "+-2, +0/1/P-1/P/P+1; P = thread count rounded up to a power of two) for batch_inversion (zeros at batch "
         "starts / ends / everywhere / random), get_power_series(_with_offset), add_in_place, mul_acc over f64, f64^2, f62, "
         "f128; group/flatten/flatten_vector (with spare capacity)/transpose with N in {2,3,4,8}; serial build, "
         "overflow-check build, concurrent build at thread counts 1,3,16 (thorough 1,2,3,5,8,16), TSan, Miri; "
         "distinct = (field, length)",
    assumptions=["which lengths take the parallel path is computed from the thread count (len/P >= 1024) and reported as a counter"],
    floor=100,
    stages=[Stage("c14", variant="rel"), Stage("c14", variant="chk", args=["--maxlen", "3000"])]
           + [Stage("c14", variant="par", threads=t, tiers=("quick", "thorough") if t in C14_THREADS_QUICK else ("thorough",)) for t in C14_THREADS_ALL]
           + [Stage("c14", kind="tsan", threads=8, args=["--maxlen", "4200"], timeout=(900, 1800)),
              Stage("c14", kind="miri", args=["--maxlen", "20"], miri_flags=MIRI_SERIAL, timeout=(900, 1800))],
)


def compare_digests(prop, reports, seed, tier):
    """offline checker: every case digest emitted by several runs (serial build, concurrent build at
    several thread counts, ...) must be identical across the runs that emitted it"""
    seen = {}
    viol = []
    runs = 0
    for st, rep in reports:
        d = (rep.get("extra") or {}).get("digests")
        if not d:
            continue
        runs += 1
        label = st.label() + ("/t%s" % st.threads if st.threads else "")
        for k, v in d.items():
            if k in seen and seen[k][1] != v:
                viol.append({"sig": "output-differs-across-builds-or-threads|%s" % k.split("/")[0] + "|" + k.split("/")[1],
                             "count": 1, "examples": [{"case": k, "run_a": seen[k][0], "run_b": label}]})
            seen.setdefault(k, (label, v))
        rep["extra"].pop("digests", None)
    return {"evaluations": len(seen) * max(runs - 1, 0), "distinct_nontrivial": 0, "distinct_hashes": [], "samples": [],
            "counters": {"digest_keys_compared": len(seen), "runs_compared": runs}, "extra": {}, "violations": viol,
            "inconclusive": [], "wall_s": 0.0, "rule": ""}


PAR_THREADS_QUICK = (3, 16)
PAR_THREADS_ALL = (1, 2, 3, 4, 5, 7, 8, 16)
PROPS["C12"] = dict(
    level="exploration",
    rule="sizes 2^1..2^13 (thorough 2^16) x 7 coefficient types x blowups {1..64; 128..16384 for sizes <= 64} x offsets {generator,1,random,p-1}: "
         "evaluate_poly, evaluate_poly_with_offset, serial_fft vs naive evaluation over the offset subgroup in natural "
         "order (all points for n <= 1024 (4096), 69 spot points above), interpolate_poly(_with_offset) inverts, "
         "infer_degree on degrees {0,1,n/2,n-1}, twiddles/permute_index; serial, overflow-check, concurrent builds at "
         "3 (8) thread counts; output digests compared across all runs; TSan; Miri serial and concurrent; "
         "distinct = (coefficient type, size)",
    assumptions=["2^32-point domains (f64 limit) are not reachable in memory/time here; largest size is 2^17 points",
                 "Miri on the concurrent build runs without borrow tracking (DESIGN.md section 2)"],
    floor=40,
    post=compare_digests,
    stages=[Stage("c12", variant="rel"), Stage("c12", variant="chk", args=["--maxk", "10"])]
           + [Stage("c12", variant="par", threads=t, tiers=("quick", "thorough") if t in PAR_THREADS_QUICK else ("thorough",)) for t in PAR_THREADS_ALL]
           + [Stage("c12", kind="tsan", threads=8, args=["--maxk", "11"], timeout=(900, 1800)),
              # (Miri stages for c12 were dropped: neither finished within an hour in the thorough runs, see DESIGN 0a.2)
              ],
)

PROPS["C15"] = dict(
    level="exploration",
    rule="Blake3_256/Blake3_192/Sha3_256 over f62/f64/f128: hash on every length 0..300 and around 1K/2K/64K; merge; merge_many "
         "on 0..40 digests; merge_with_int at 32-bit limb boundaries; hash_elements on 0..43 and around 64/128/256/1000 "
         "elements of base/quadratic/cubic types with non-canonical internal representations; expected = blake3 / sha3 "
         "crates applied to the byte layout the monitor assembles from canonical values (192-bit: first 24 bytes); "
         "hash_elements of the same values in fresh representations must be equal; distinct = (hasher, op, size/content)",
    assumptions=["the blake3 and sha3 crates (the same versions the repository locks) are the primitives' reference"],
    floor=500,
    stages=[Stage("c15", variant="rel"), Stage("c15", variant="chk"),
            Stage("c15", kind="miri", args=["--n", "1", "--len", "12"], miri_flags=MIRI_SERIAL, timeout=(900, 1800), tiers=("thorough",))],
)

PROPS["C16"] = dict(
    level="exploration",
    rule="Rescue permutation of Rp64_256, RpJive64_256 (public) and Rp62_248 (verif hook) on boundary-biased states vs a "
         "reference round function (S-box by modpow, inverse S-box exponent computed as alpha^-1 mod p-1, MDS as matrix "
         "product, constants read from the code and pinned by golden digests; circulant / MDS*INV_MDS=I checks); hash, "
         "hash_elements (base/quadratic/cubic), merge, merge_many, merge_with_int at integer boundaries vs the "
         "documented sponge, padding, capacity and Jive rules; merge == hash of the 8 elements for the sponge variants; "
         "distinct = distinct states / inputs",
    assumptions=["round constants and MDS are taken from the code and pinned by FNV digests recorded from the pinned tree "
                 "(they cannot be regenerated here)",
                 "RpJive64_256 completes a final partial block by SETTING the remaining rate elements to 1,0,..,0 (as its "
                 "inline documentation shows); the reference follows that rule"],
    floor=500,
    stages=[Stage("c16", variant="rel"), Stage("c16", variant="chk", args=["--n", "600"])],  # (Miri stage dropped: the Rescue reference work does not finish under Miri, DESIGN 0a.2)
)

PROPS["C17"] = dict(
    level="exploration",
    rule="per hasher (6): all prefixes of a 60..140-byte string; s||0^k and s||01||0^k for |s| around multiples of 7/28/56; "
         "element lists with trailing zero or ONE elements around the rate (base and quadratic); different splits of a "
         "digest list and zero-digest extensions; merge_with_int(seed, x + k*p) for every k below 2^64; all digests in a "
         "family must be pairwise different; evaluation = one family member; distinct = families",
    assumptions=["a collision among <= 200 inputs of a sound 192..256-bit hash has probability < 2^-170, so a report is never a chance event"],
    floor=20,
    stages=[Stage("c17", variant="rel"), Stage("c17", variant="chk", args=["--n", "2"])],
)

PROPS["C18"] = dict(
    level="exploration",
    rule="trees of 2..2^13 (thorough 2^15) leaves x 6 hashers: root, serial node array and every opened path vs the recursive "
         "pairwise hash; every single opening verifies; batch openings for EVERY non-empty subset up to 8 leaves (thorough 12; "
         "algebraic hashers 4/8) and structured + random subsets above, each in sorted, reversed, shuffled and interleaved "
         "order: prove_batch (leaves in caller order), get_root == root, verify_batch, VectorCommitment facade, node count == "
         "definition, from_single_proofs == prove_batch, into_openings == single openings in caller order, serialization "
         "round trip; serial build, overflow-check build, concurrent build at 3 (8) thread counts with root digests compared "
         "across all runs by the offline checker; TSan; Miri; distinct = (hasher, leaves)",
    assumptions=["H::merge itself is the pairwise hash (its definition is C15/C16's subject)",
                 "leaves are pairwise distinct digests (hashes of distinct strings)",
                 "Miri on the concurrent build runs without borrow tracking (DESIGN.md section 2)"],
    floor=30,
    post=compare_digests,
    stages=[Stage("c18", variant="rel"), Stage("c18", variant="chk", args=["--maxk", "9"])]
           + [Stage("c18", variant="par", threads=t, tiers=("quick", "thorough") if t in (3, 6, 16) else ("thorough",)) for t in (1, 2, 3, 5, 6, 7, 8, 16)]
           + [Stage("c18_par_small", kind="tsan", threads=6, timeout=(900, 1800), tiers=("quick",)),
              Stage("c18", kind="tsan", threads=6, args=["--maxk", "12"], timeout=(900, 1800), tiers=("thorough",)),
              # (Miri stages for c18 dropped: the serial one does not finish (> 14 min even in --lite mode) and, with Stacked
              # Borrows on, stops at an aliasing diagnostic in build_merkle_nodes that no property speaks about - DESIGN 0a.2)
              ],
)

PROPS["C19"] = dict(
    level="exploration",
    rule="(1) honest single and batch openings of trees with 2..2^8 (thorough 2^11) distinct leaves x 6 hashers; every single "
         "substitution (leaf, each path / proof node, index -> every other in-range index, out-of-range and duplicated "
         "indexes adjacent or not, swapped indexes / nodes / node vectors, missing leaf, dropped opening, depth, root) must "
         "be rejected; (2) structurally mutated and fully random batch proofs (depth 0..255, ragged nodes, huge indexes, "
         "leaf-count mismatches) and mutated encodings: get_root, verify_batch, into_openings and decode-then-use must "
         "return without panic / abort / hang in isolated workers under the release, overflow-check and ASan builds; "
         "evaluation = one substitution or malformed case",
    assumptions=["leaves are pairwise distinct, so a different index or leaf can never legitimately verify",
                 "surplus data that verification never reads (an extra trailing leaf or proof node) is not judged: the "
                 "property speaks about data that differs from the tree's"],
    floor=1000,
    stages=[Stage("c19_subst", variant="rel"), Stage("c19_subst", variant="chk"),
            Stage("c19_malformed", variant="rel", kind="sharded", n=(60000, 3000000), mem_gb=4),
            Stage("c19_malformed", variant="chk", kind="sharded", n=(30000, 600000), mem_gb=4),
            Stage("c19_malformed", variant="asan", kind="sharded", n=(10000, 300000), mem_gb=None, env=ASAN_ENV)],
)

PROPS["C20"] = dict(
    level="exploration",
    rule="random histories (<= 14 ops: reseed, draw base/quadratic/cubic, draw_integers(k in {0,1,2,..,255,999,1000,1001+}, "
         "2^j for j in 1..63, nonce), check_leading_zeros on 8 consecutive nonces) after new(seed of 0..20 "
         "representation-biased elements), 11 hasher x field instantiations; two real coins fed the same history and an "
         "executable model of the documented seed/counter state machine must agree at every step; drawn elements canonical, "
         "integer draws exactly k values below 2^j, k > 1000 is the documented error; a real coin reseeded with a different "
         "digest must draw differently; evaluation = one history step; distinct = histories",
    assumptions=["the model calls the same Hasher trait functions (hash_elements, merge, merge_with_int) whose definitions are C15/C16's subject",
                 "a history ends at the first documented draw_integers error (state afterwards is undocumented)",
                 "two different digests giving the same next quadratic draw has probability < 2^-120"],
    floor=500,
    stages=[Stage("c20", variant="rel"), Stage("c20", variant="chk", args=["--n", "200"])],  # (Miri stage dropped: did not finish within its 30 min watchdog, DESIGN 0a.2)
)

PROPS["C21"] = dict(
    level="exploration",
    rule="EXHAUSTIVE for every power-of-two trace length n in 8..256 (thorough 8..1024) and 2 columns: every single (each "
         "step), periodic (each stride 2..n, each first step) and sequence (each stride 2..n/2 with n/stride values, each "
         "first step) assertion the constructors accept and n fits: apply() steps/values/order, get_num_steps, "
         "validate_trace_length on every length 1..4n (powers of two and not), overlaps_with on every ordered pair (8.3M "
         "pairs quick) <=> explicit cell sets intersect; plus sampled 2..5-element lists through BoundaryConstraints::new "
         "(prepare_assertions) which must panic with the overlap message iff some pair overlaps; distinct = (n, assertion)",
    assumptions=["two columns suffice: assertions on different columns never share a cell and the code compares columns first",
                 "cell sets are written down from the documentation of Assertion (single: the step; periodic: first + k*stride "
                 "below n; sequence: first + k*stride for k < number of values, fitting only n = stride * values)"],
    floor=500,
    exhaustive=True,
    explanation="all assertions and all ordered pairs for each trace length up to the bound are enumerated; lists for prepare_assertions are sampled",
    stages=[Stage("c21", variant="rel"), Stage("c21", variant="chk", args=["--maxn", "64"])],
)

PROPS["C24"] = dict(
    level="exploration",
    rule="300 (thorough 6000) random valid base contexts (boundary-biased widths, trace lengths 2^3..2^28, metadata 0..65535 "
         "bytes incl. chunk-boundary lengths and zero runs, 3 moduli, all option bounds) x every one-parameter alternative: "
         "ALL trace lengths, blowups, folding factors, remainder degrees, grinding factors, extensions and moduli; boundary "
         "and bit-flip values for widths, random-element count, constraint count, queries; 9 metadata edit classes (zeros "
         "appended 1..16, byte dropped, bit flipped, zero inserted at a chunk boundary, bytes swapped, emptied); "
         "Context::to_elements compared in f62, f64 and f128; evaluation = one pair in one element field; distinct = base contexts",
    assumptions=["contexts are built with the public constructors only (so constraint counts are <= u32::MAX and lengths fit u32)",
                 "a pair is compared in an element field only if the modulus halves fit that field (documented precondition of "
                 "from_bytes_with_padding): 128-bit-modulus contexts are compared in f128 only",
                 "batching methods and partition options are not in the property's list and are not judged"],
    floor=100,
    stages=[Stage("c24", variant="rel"), Stage("c24", variant="chk", args=["--n", "60"])],
)

PROPS["C25"] = dict(
    level="exploration",
    rule="4000 (thorough 120000) random grid points over queries 1..255, blowup 2..128, grinding 0..32, 3 extensions, 4 folding "
         "factors, 9 remainder degrees, 9 batching pairs, trace length 2^3..2^30, constraints 1..2^32-1, trace width 1..255, "
         "field bits {62,64,128}, collision resistance {96,124,128}, plus full sweeps of the queries and grinding axes at "
         "12 (300) anchors: bits <= collision resistance, conjectured < extension-field bits, is_at_least(b) == (bits >= b) "
         "around the value, one-step monotonicity along queries / grinding / extension degree for conjectured, unique- and "
         "list-decoding estimates; 600 (20000) dummy proofs x 9 hasher/field pairs through AcceptableOptions::validate at "
         "bits-1 / bits / bits+1 / 0 / MAX and option sets with near-miss members; distinct = grid points",
    assumptions=["the estimator types are private, so estimates are read through Proof::conjectured_security / proven_security "
                 "on a dummy proof carrying the context (number of committed polynomials = width + blowup as documented there)",
                 "documented collision resistance: Blake3_256/Sha3_256/Rp64_256/RpJive64_256 128, Blake3_192 96, Rp62_248 124"],
    floor=500,
    stages=[Stage("c25", variant="rel"), Stage("c25", variant="chk", args=["--n", "500", "--sweeps", "2", "--vcases", "100"])],
)

PROPS["C08"] = dict(
    level="exploration",
    rule="random realisable FRI geometries (degree bound + 1 = 2^1..2^10 (thorough 2^13), blowup 2..128, folding 2/4/8/16, "
         "remainder degree 2^k-1 <= 255, domain <= 2^17) x 12 field / extension / hasher instantiations x polynomial degree "
         "{0, 1, bound/2, exactly bound, random} x query positions (drawn 1..255 with random nonce, one position repeated, "
         "positions folding onto each other, sorted / reversed multisets with duplicates, domain edges): prover + verifier "
         "on the proof object, FriProof round trip (equal, byte-identical), verifier on the decoded proof; "
         "distinct = (instantiation, geometry, degree class, position mode)",
    assumptions=["geometries are restricted to the realisability predicate of DESIGN.md C08 (every layer has >= 2 rows and the "
                 "degree bound is divisible by the folding factor at every fold); outside it the prover itself refuses",
                 "remainder degrees above 255 are not generated (the STARK options cap it at 255; the u16 remainder length field "
                 "of the proof encoding cannot hold more than 65535 bytes)"],
    floor=300,
    stages=[Stage("c08", variant="rel", kind="sharded", n=(3000, 60000), timeout=(600, 3600)),
            Stage("c08", variant="chk", kind="sharded", n=(800, 8000), timeout=(600, 3600)),
            Stage("c08", variant="par", kind="sharded", n=(600, 6000), timeout=(600, 3600), threads=3, args=["--maxlogd", "12"])],
)

PROPS["C09"] = dict(
    level="fault_enumeration",
    rule="per case one random realisable FRI geometry x 12 instantiations x 1..255 drawn queries: (a) random functions and "
         "polynomials of degree bound+1..4(bound+1)-1 with uniform coefficients through the honest prover must be rejected; "
         "(b) every understated bound in {bound-1, bound-8, bound/2, (bound+1)/2-1, (bound+1)/folding-1, 1, 0, bound - j*folding^layers (same domain, no truncation error)} must be "
         "rejected; (c) at EVERY layer of an honest proof: one value changed, two rows swapped, one row crafted to keep "
         "its fold at alpha; remainder coefficient changed, remainder crafted as R + c*prod(x-x_i) over all queried final "
         "points, remainder with leading zeros trimmed; each crafted forgery is first validated (accepted when only the "
         "targeted commitment check is switched off by the failpoint hook, else inconclusive) and then must be rejected; "
         "(d) changed / swapped / dropped / extra commitments and a changed claimed evaluation; evaluation = one verification "
         "of forged data; distinct = (instantiation, geometry, queries)",
    assumptions=["non-low-degree inputs use uniformly random coefficients / values, so the folded high-degree part evaluated at a "
                 "queried point is uniform: acceptance has probability <= 1/|F| <= 2^-62 and is never a legitimate chance event",
                 "panics of the standalone FRI verifier on structurally malformed transcripts (wrong number of commitments, bound "
                 "implying a smaller domain) are counted but not judged here; panic-freedom is C05's subject"],
    floor=100,
    stages=[Stage("c09", variant="rel", kind="sharded", n=(1200, 30000), timeout=(600, 3600)),
            Stage("c09", variant="chk", kind="sharded", n=(300, 3000), timeout=(600, 3600))],
)

STARK_RULE = ("random GenAir instances (trace length 2^3..2^9 (thorough 2^12), main width 1..12, 1..width transition constraints of "
              "degree 1..8 with periodic factors, rotation columns, free columns, 1..n/2+1 transition exemptions, auxiliary "
              "segment with 0..4 random elements, single / periodic / sequence assertions incl. >= 64 values, metadata) x 11 "
              "field/hasher pairs x random valid options (3 extensions, 9 batching pairs, blowup up to 128, folding 2..16, "
              "remainder degree 0..255, 1..255 queries, grinding 0..12, partitions 1..16 x hash rate 1..255)")

PROPS["C01"] = dict(
    level="exploration",
    rule=STARK_RULE + "; the independent checker confirms the statement is true; prove, verify under OptionSet([own options]), "
         "decode(to_bytes) == proof and verifies; plus directed corners (255 unique queries on a 2^19 LDE domain, 2 / 3 / 33 "
         "exemptions, width up to 255, smallest trace, long sequence assertions, high-degree aux+periodic); also under "
         "debug assertions / overflow checks and in the concurrent build; the 10 bundled examples (fib2/8, mulfib2/8, "
         "fib_small over f64, vdf, vdf with exemptions, rescue, rescue_raps, merkle) at trace lengths 2^3..2^9 x 3 hashers x "
         "random valid options: prove, verify, verify after a round trip, wrong public input rejected; "
         "distinct = instance descriptions",
    assumptions=["configuration validity predicate of DESIGN.md 4.3 (options accepted by ProofOptions::new, blowup >= AIR minimum, "
                 "queries < LDE domain size, realisable FRI geometry, LDE domain <= 2^22)",
                 "traces are generated from the recurrence from a random first row (full-degree columns), so the prover's "
                 "degree self-checks are not tripped by degenerate traces",
                 "in the debug-assertion build only instances with exact declared degrees and a tight evaluation domain are "
                 "generated (no rotation columns as factors or with > 1 exemption): winterfell's debug self-checks demand this "
                 "of the AIR author, so tripping them is not a completeness failure"],
    floor=100,
    stages=[Stage("c01", pkg="mon_stark", variant="rel", kind="sharded", n=(500, 20000), timeout=(900, 3600)),
            Stage("c01", pkg="mon_stark", variant="chk", kind="sharded", n=(160, 3000), timeout=(900, 3600), args=["--exact", "1"]),
            Stage("c01", pkg="mon_stark", variant="par", kind="sharded", n=(120, 2000), timeout=(900, 3600), threads=4, args=["--maxlogn", "12"]),
            Stage("c01_examples", pkg="mon_stark", variant="rel", kind="sharded", n=(320, 8000), timeout=(900, 3600)),
            Stage("c01_examples", pkg="mon_stark", variant="chk", kind="sharded", n=(100, 1000), timeout=(900, 3600))],
)

PROPS["C02"] = dict(
    level="exploration",
    rule="per random GenAir instance (as C01, trace length 2^3..2^7 (thorough 2^10)): every corruption class (single cell at "
         "first / interior / last non-exempt / next-of-last-non-exempt / first fully exempt / last row, in a constrained and "
         "in a random column; an asserted cell of every assertion; a whole row; a whole column; two rows) is classified by "
         "the independent checker: unsatisfying => release prover (no debug validation) then verifier must not accept "
         "(prover refusal is allowed and counted); still satisfying => must still verify; auxiliary cells at rows "
         "{0, 1, n-e, n-e+1, n-1}; the honest proof verified against public inputs with an asserted value / constraint "
         "constant / asserted step / periodic value changed; evaluation = one verification; distinct = instances",
    assumptions=["a false statement proved by the honest pipeline fails the out-of-domain consistency check except with "
                 "probability <= degree/|extension field| <= 2^-40 for every supported field, independent of the number of "
                 "queries, so 1-query and blowup-2 parameter sets are in scope",
                 "which edits make the statement false is decided by the independent checker (main segment) or by the "
                 "definition of the auxiliary columns (row 0 or a row reached as 'next' of a non-exempt step)"],
    floor=40,
    stages=[Stage("c02", pkg="mon_stark", variant="rel", kind="sharded", n=(400, 12000), timeout=(900, 3600)),
            Stage("c02", pkg="mon_stark", variant="par", kind="sharded", n=(60, 1000), timeout=(900, 3600), threads=3)],
)

PROPS["C29"] = dict(
    level="exploration",
    rule="per random GenAir instance (as C01; base, quadratic and cubic auxiliary fields): Trace::validate on the satisfying "
         "trace and on every corruption class (cells at first / interior / last non-exempt / next-of-last-non-exempt / first "
         "fully exempt / last row in constrained and random columns, every assertion's cell, a row, a column, two rows; "
         "auxiliary cells at 7 row classes): validate panics with its violation message <=> the independent checker "
         "(reference arithmetic, periodic values by index, auxiliary columns in reference extension arithmetic) reports a "
         "violation; TraceTable fill vs init vs fragments of every length 2..n (rayon in the concurrent build), widths 1..9, "
         "n = 8..4096; evaluation = one validate call or table comparison; distinct = instances",
    assumptions=["the independent checker shares only the specification value with the AIR implementation",
                 "validate is called directly (it does not depend on debug_assertions)"],
    floor=100,
    stages=[Stage("c29", pkg="mon_stark", variant="rel", kind="sharded", n=(4000, 150000), timeout=(900, 3600)),
            Stage("c29", pkg="mon_stark", variant="chk", kind="sharded", n=(800, 10000), timeout=(900, 3600)),
            Stage("c29", pkg="mon_stark", variant="par", kind="sharded", n=(800, 10000), timeout=(900, 3600), threads=5)],
)

PROPS["C22"] = dict(
    level="exploration",
    rule="random GenAir instances (trace length 2^3..2^8 (thorough 2^11), 3 base fields, base and quadratic constraint field) "
         "with up to 24 non-overlapping single / periodic / sequence assertions (any first step and stride, sequences up to n/2 "
         "values incl. >= 64) plus auxiliary assertions: for EVERY derived constraint and EVERY trace-domain point: "
         "evaluate_at(g^s, asserted value) = 0 and (value + 1) != 0 on asserted steps; each group's divisor is zero exactly "
         "on the group's steps (all n points tested) with degree = their number; groups ordered by (stride, first step), "
         "constraints by column; coefficient k goes to the k-th assertion in that order; identical constraints for a "
         "shuffled assertion list; proofs byte-identical for a reversed assertion list; distinct = instances",
    assumptions=["the trace domain generator is the code's (its order is C11's subject)",
                 "constraints are matched to assertions through the documented deterministic order (stride, first step, column)"],
    floor=50,
    stages=[Stage("c22", pkg="mon_stark", variant="rel", kind="sharded", n=(1500, 60000), timeout=(900, 3600)),
            Stage("c22", pkg="mon_stark", variant="chk", kind="sharded", n=(300, 5000), timeout=(900, 3600))],
)

PROPS["C23"] = dict(
    level="exploration",
    rule="(1) ConstraintDivisor::from_transition(n, e) for n = 8..2^9 (thorough 2^11) and EVERY e <= n/2+1 for n <= 64 (7 values "
         "above), 3 fields: degree n-e, vanishing numerator on the whole domain with exactly the last e points divided out, "
         "value at random base and quadratic-extension points = prod_{s<n-e}(x-g^s) in reference arithmetic; (2) EVERY degree "
         "declaration base 1..9 (16) x cycle multisets (all pairs of powers of two <= n, plus triples), n = 8..64 (256): "
         "evaluation degree vs definition, min blowup vs documented formula and vs quotient degree; every context the "
         "constructor and set_num_transition_exemptions accept (all e for n <= 32): columns*n >= composition degree + 1 and "
         "evaluation domain > composition degree; (3) periodic column polynomials of 300 (6000) random GenAir instances "
         "reproduce values[s mod c] at every step, cycles 2..n; distinct = (kind, parameters)",
    assumptions=["whether the divisor polynomial vanishes at a domain point is read off its documented factored form "
                 "(numerator x^n - 1, exemption list): evaluate_at itself is 0/0 at exempt points"],
    floor=300,
    stages=[Stage("c23", pkg="mon_stark", variant="rel"), Stage("c23", pkg="mon_stark", variant="chk", args=["--maxlogn", "7", "--n", "60"])],
)

PROPS["C28"] = dict(
    level="exploration",
    rule="random coefficient matrices (1..20 columns incl. counts not divisible by the segment width, polynomial size 2^3..2^9 "
         "(thorough 2^11), blowup 2..16, segment width N in {1,2,4,8}, base / quadratic / cubic elements over 3 fields, "
         "generator and random domain offsets): RowMatrix::evaluate_polys and evaluate_polys_over rows vs each column "
         "polynomial evaluated in reference arithmetic at offset*g^row (all rows for domains <= 256, 48 rows above incl. "
         "around 1024); ColMatrix::evaluate_columns_over equals the row-major result cell by cell; interpolate_columns "
         "reproduces the values; RowMatrix::commit_to_rows root for (1,1) and 3 random partition settings and "
         "ColMatrix::commit_to_rows root vs a Merkle tree over row digests computed by the documented partition rule; "
         "serial, overflow-check and concurrent builds (2 / 6 thread counts) with output digests compared offline; TSan; "
         "distinct = (instantiation, shape)",
    assumptions=["the partition size formula in the harness follows the documentation of PartitionOptions (its agreement with the "
                 "verifier's rule end to end is C01's partition axis)",
                 "MerkleTree::new and the hashers are C18 / C15 / C16's subjects"],
    floor=50,
    post=compare_digests,
    stages=[Stage("c28", pkg="mon_stark", variant="rel", args=["--n", "160"], tiers=("quick",)),
            Stage("c28", pkg="mon_stark", variant="rel", tiers=("thorough",), timeout=(900, 7200)),
            Stage("c28", pkg="mon_stark", variant="chk", args=["--n", "60"])]
           + [Stage("c28", pkg="mon_stark", variant="par", threads=t, args=["--n", "160"], tiers=("quick",)) for t in (3, 16)]
           + [Stage("c28", pkg="mon_stark", variant="par", threads=t, tiers=("thorough",), timeout=(900, 7200)) for t in (1, 2, 3, 5, 8, 16)]
           + [Stage("c28", pkg="mon_stark", kind="tsan", threads=6, args=["--n", "30", "--maxlog", "10"], timeout=(900, 1800))],
)

C06_THREADS_QUICK = (1, 3, 16)
C06_THREADS_ALL = (1, 2, 3, 4, 5, 7, 8, 16)
PROPS["C06"] = dict(
    level="exploration",
    rule="a fixed seed-determined list of 44 (thorough 300) GenAir instances with trace lengths 2^6..2^12 (2^14), blowup up to 16 "
         "(LDE domains on both sides of the 1024-point FFT, 1024-leaf Merkle, 1024-row transposition and evaluation-fragment "
         "thresholds), grinding 0 / 5 / 9, partitions, auxiliary segments, 11 field/hasher pairs; the serial build, the async "
         "build and the concurrent build at 3 (8) thread counts each prove every instance and log digest(context || "
         "commitments || OOD frame) and digest(whole proof) keyed by the proof-of-work nonce; the offline checker requires "
         "equal prefix digests across ALL runs and equal whole-proof digests within each nonce class; every proof is verified; "
         "TSan on the concurrent build; trace-table fragments vs fill is checked under C29's concurrent stage; "
         "distinct = instances",
    assumptions=["nothing is demanded about WHICH nonce a build finds (the concurrent search may return any valid one)",
                 "the async prover's futures never pend (no I/O); they are driven by a no-op-waker executor",
                 "thread counts are set with RAYON_NUM_THREADS on a 16-core host"],
    floor=20,
    post=compare_digests,
    stages=[Stage("c06", pkg="mon_stark", variant="rel", timeout=(900, 7200)),
            Stage("c06", pkg="mon_stark", variant="async", timeout=(900, 7200))]
           + [Stage("c06", pkg="mon_stark", variant="par", threads=t, timeout=(900, 7200),
                    tiers=("quick", "thorough") if t in C06_THREADS_QUICK else ("thorough",)) for t in C06_THREADS_ALL]
           + [Stage("c06", pkg="mon_stark", kind="tsan", threads=5, args=["--n", "10", "--maxlogn", "11"], timeout=(1200, 3600))],
)

PROPS["C07"] = dict(
    level="exploration",
    rule="TraceInfo: main width {1,2,3,127,128,253,254,255} x aux width {0,1,2,127,253,254} x random elements {0,1,2,128,254,255} "
         "x length 2^3..2^40 (thorough every exponent up to 2^63) x metadata {0,1,7,255,256,65535 bytes}; ProofOptions: every "
         "bound of every field, all 27 enum triples, EVERY partition setting 1..16 x 1..256; Context over 3 fields x kept "
         "infos x kept options x constraint counts {1,2,100,65536,2^32-1}; digests of 6 hashers from hashing and from "
         "boundary limb encodings (Rp62 31-byte packing); 66 (2000) generated proofs at extreme shapes (width up to 255, "
         "n = 8, 1 query, remainder degree 255, 65535 metadata bytes, random) with their Commitments / Queries / OodFrame / "
         "FriProof / Context: decode(encode(x)) == x, no bytes left, identical re-encoding, same verification verdict "
         "for the decoded proof; BatchMerkleProof round trips are exercised under C18; distinct = values",
    assumptions=["values are built through the public constructors only; a constructor panic on a documented-valid value is a violation",
                 "255-query proofs are covered by C01's directed case (which also re-verifies the decoded proof)"],
    floor=1000,
    stages=[Stage("c07", pkg="mon_stark", variant="rel"), Stage("c07", pkg="mon_stark", variant="chk", args=["--n", "22"])],
)

PROPS["C05"] = dict(
    level="exploration",
    rule="honest GenAir proofs (a seed-determined pool over 3 fields x 3 hashers, main-only and auxiliary, 3 extensions, "
         "partitions, grinding) mutated with knowledge of the encoding: header bytes of every component (context incl. trace "
         "info / modulus / options / constraint count, unique-query count, commitments, query values and openings, OOD frame, "
         "FRI layers / remainder / partition exponent, nonce) set to boundary values, +-1, bit flips; several header bytes at "
         "once; huge variable-length integers spliced in; truncation at any offset; deleted / duplicated ranges at component "
         "boundaries; random bytes; splices of two proofs; random strings; OOD-patched proofs (a seed-bound context field - "
         "queries 1 / LDE-1 / LDE / 255, grinding 32, constraint count - is edited, z and the constraint evaluation are "
         "recomputed under the new seed with public Air methods, the first composition-column claim is overwritten so the "
         "out-of-domain equation holds and the nonce is re-ground: this reaches FriVerifier::new, the proof-of-work check, "
         "draw_integers and the opening checks with a consistent transcript); multi-site edits (unique-query count lowered "
         "to k with every opened table cut to k rows; field modulus resized / replaced; blowup lowered to 2): "
         "Proof::from_bytes then verify under OptionSet, "
         "MinConjecturedSecurity(0) and MinProvenSecurity(0); every component decoder and parser (TraceInfo, ProofOptions, "
         "Context, Commitments, Queries, OodFrame, FriProof, BatchMerkleProof, digests, elements) on mutated component bytes "
         "with random parse parameters; isolated workers under release, overflow/debug-assertion and ASan builds: a panic, "
         "abort (allocation), signal, sanitizer report or hang is a violation; distinct = inputs",
    assumptions=["the user-supplied AIR (GenAir) never panics itself: when the proof's trace info does not describe its "
                 "specification it falls back to a trivial constraint system of the right shape, so every recorded panic is "
                 "inside winterfell",
                 "verifier code behind the commitment checks is reached only by data consistent with the commitments; deep "
                 "reach comes from edits of fields that are not bound into the transcript (see DESIGN.md section 7)",
                 "ByteReader primitives and collections on hostile bytes are C26's workload; batch Merkle proofs as values C19's"],
    floor=2000,
    stages=[Stage("c05", pkg="mon_stark", variant="rel", kind="sharded", n=(60000, 3000000), mem_gb=4, timeout=(900, 7200)),
            Stage("c05", pkg="mon_stark", variant="chk", kind="sharded", n=(20000, 400000), mem_gb=4, timeout=(900, 7200)),
            Stage("c05", pkg="mon_stark", variant="asan", kind="sharded", n=(6000, 200000), mem_gb=None, env=ASAN_ENV, timeout=(900, 7200)),
            Stage("c05_decoders", pkg="mon_stark", variant="rel", kind="sharded", n=(20000, 1000000), mem_gb=4, timeout=(900, 7200)),
            Stage("c05_decoders", pkg="mon_stark", variant="chk", kind="sharded", n=(8000, 100000), mem_gb=4, timeout=(900, 7200)),
            Stage("c05_decoders", pkg="mon_stark", kind="miri", args=["--to", "150"], miri_flags=MIRI_SERIAL, timeout=(1800, 3600), tiers=("thorough",))],
)

PROPS["C03"] = dict(
    level="fault_enumeration",
    rule="per honest GenAir proof (as C01, trace length 2^3..2^7 (thorough 2^10); base, quadratic and cubic constraint fields; 11 "
         "field/hasher pairs) the public-coin transcript is replayed with public APIs (aux randomness, z, DEEP coefficients, FRI "
         "alphas, query positions; self-test: identity re-encoding verifies and the replayed unique-position count matches) and "
         "the revealed data is edited so that every algebraic check still holds at the queried positions: main + constraint "
         "cells and auxiliary + constraint cells with cc_a*d_a + cc_b*d_b = 0 (DEEP value unchanged), two main cells, two "
         "constraint cells, swapped rows; in the FRI part at EVERY layer: value changed, rows swapped, row crafted to keep its "
         "fold at alpha; remainder coefficient changed, remainder = R + c*prod(x-x_i) over all queried final points, leading "
         "zeros trimmed; each crafted forgery must be ACCEPTED with exactly the targeted commitment checks switched off "
         "(failpoint hook; otherwise inconclusive), REJECTED by each remaining single check with that check's error, and "
         "REJECTED with all checks on; the same FRI attacks run against the standalone FRI API (C09's stage); "
         "evaluation = one verification; distinct = instances",
    assumptions=["decides the property against these adversaries (every single-position, two-cell substitution class per "
                 "committed object and the FRI row / remainder substitutions), not against all adversaries",
                 "failpoints (winter_utils::verif, cfg winterfell_verif) are used only to validate forgeries; judged runs have every check on"],
    floor=60,
    stages=[Stage("c03", pkg="mon_stark", variant="rel", kind="sharded", n=(640, 24000), timeout=(900, 7200)),
            Stage("c03", pkg="mon_stark", variant="chk", kind="sharded", n=(160, 3000), timeout=(900, 7200)),
            Stage("c09", pkg="mon_leaf", variant="rel", kind="sharded", n=(480, 12000), timeout=(900, 7200))],
)

PROPS["C04"] = dict(
    level="fault_enumeration",
    rule="per honest GenAir proof (5 field/hasher pairs, all 3 extensions, main-only and auxiliary, partitions, grinding; 1-3 KB): "
         "every bit of the first 64 bytes (context), of the first 3 bytes of each component and of the last 12 bytes plus 1200 "
         "(thorough 6000; every third proof EVERY bit) random bit flips; byte substitutions {0,1,7f,80,ff}; truncation at "
         "every offset; trailing bytes; one byte inserted / deleted at and just inside every component boundary; field-level "
         "edits with consistent length prefixes (metadata zeros appended / last byte dropped / bit flipped / added, 6 "
         "partition settings, constraint count, unique-query count, nonce, an unused node appended to an opening, swapped node "
         "vectors, FRI partition exponent); each mutated string: decode error, or rejected under OptionSet([original "
         "options]) AND under MinConjecturedSecurity(0), or its parsed contents (context, unique-query count, commitment "
         "digests, query values and openings, OOD frame, FRI layer values / openings / remainder, nonce) equal the "
         "original's; evaluation = one mutated string; distinct = proofs",
    assumptions=["nonce edits are applied only to proofs with grinding >= 1 or log2(LDE size) * unique queries >= 40, so a "
                 "different nonce yielding the same position set is not a chance event; others are counted skipped_inherent",
                 "the FRI partition count is not among the parsed contents the property lists and is inert when a proof has no "
                 "FRI layers; it is not compared",
                 "panics while decoding / verifying a mutated string count as 'not accepted' here and are C05's subject"],
    floor=8,
    stages=[Stage("c04", pkg="mon_stark", variant="rel", kind="sharded", n=(32, 400), shard=1, timeout=(900, 7200)),
            Stage("c04", pkg="mon_stark", variant="chk", kind="sharded", n=(10, 60), shard=1, timeout=(900, 7200), args=["--budget", "300"])],
)
