"""Per-property stage tables. See DESIGN.md section 5 for the oracles."""
from driver import Stage

MIRI_SERIAL = "-Zmiri-disable-isolation"
MIRI_PAR = "-Zmiri-disable-isolation -Zmiri-disable-stacked-borrows -Zmiri-ignore-leaks -Zmiri-permissive-provenance"

PROPS = {}

PROPS["C26"] = dict(
    level="exploration",
    rule="values of every primitive/collection type with boundary bias (every vint64 length boundary exhaustively); "
         "every strict prefix of every encoding; corrupted encodings (huge/odd length prefixes, bad tags, invalid UTF-8) "
         "decoded as 13 types in isolated workers; distinct = distinct (type, encoding) or byte string; non-trivial = non-empty",
    assumptions=["64-bit host: the 'size value does not fit the platform' branch cannot be reached (usize = u64)",
                 "reference vint64 encoder in the harness is the documented format"],
    floor=1000,
    stages=[
        Stage("c26_rt", variant="rel"),
        Stage("c26_rt", variant="chk", args=["--n", "4000"]),
        Stage("c26_hostile", variant="rel", kind="sharded", n=(20000, 400000), mem_gb=4),
        Stage("c26_hostile", variant="chk", kind="sharded", n=(4000, 40000), mem_gb=4),
        Stage("c26_rt", kind="miri", args=["--n", "48"], miri_flags=MIRI_SERIAL, timeout=(900, 1800)),
    ],
)

ASAN_ENV = {"ASAN_OPTIONS": "detect_leaks=0:abort_on_error=1:halt_on_error=1"}

PROPS["C27"] = dict(
    level="exploration",
    rule="differential ReadAdapter-vs-SliceReader: (1) exhaustive over content length <= 8 (thorough 11) x every chunking "
         "composition x every read-size composition x 3 read flavours with probes; (2) random contents <= 4 KiB, chunk "
         "schedules around 1 byte and the 256-byte BufReader, <= 12 ops from 14 kinds; distinct = (chunking, ops); "
         "non-trivial = non-empty content. Also under overflow/debug-assert profile, ASan and Miri.",
    assumptions=["value comparison stops at the first failed read of a sequence (the trait leaves the position unspecified "
                 "after an error); later ops are still executed for panic/UB freedom",
                 "slice/vec lengths are bounded by content length + 560 (SliceReader's own overflow on usize::MAX lengths is "
                 "exercised under C05)"],
    floor=10000,
    stages=[
        Stage("c27_exh", variant="rel"),
        Stage("c27_exh", variant="chk", args=["--n", "7"]),
        Stage("c27_rand", variant="rel", kind="sharded", n=(200000, 5000000)),
        Stage("c27_rand", variant="chk", kind="sharded", n=(50000, 1000000)),
        Stage("c27_rand", variant="asan", kind="sharded", n=(30000, 600000), mem_gb=None, env=ASAN_ENV),
        Stage("c27_rand", kind="miri", args=["--n", "120"], miri_flags=MIRI_SERIAL, timeout=(900, 1800)),
        Stage("c27_exh", kind="miri", args=["--n", "4"], miri_flags=MIRI_SERIAL, timeout=(900, 1800)),
    ],
)

PROPS["C10"] = dict(
    level="exploration",
    rule="(1) lattice: every pair of internal representations within +-6 (thorough +-40) of each representation boundary "
         "(0, 2^32, 2^63, M/2, M-1, M, 2M-1 ...) of f62/f64/f128 for add/sub/mul/==, every point for neg/double/square/inv; "
         "(2) chains of 4..16 operations (19 kinds + mul_small/exp7) over 8 element types starting from "
         "representation-biased operands, every intermediate compared with reference modular arithmetic, `==` compared "
         "with canonical equality, inv/div under a 3 s termination watchdog. evaluation = one operation; distinct = "
         "distinct starting operand triples",
    assumptions=["reference arithmetic (vcommon/refarith.rs, self-tested) is correct",
                 "f62 non-canonical representations are injected through bytes_as_elements within the documented [0,2M) range; "
                 "f64 through from_mont within its documented precondition (< M)",
                 "division by zero is not judged; representation-range excursions are reported as diagnostics only"],
    floor=1000,
    stages=[
        Stage("c10_lattice", variant="rel"),
        Stage("c10_lattice", variant="chk", args=["--n", "3"]),
        Stage("c10_chains", variant="rel", kind="sharded", n=(60000, 1500000), timeout=(300, 1800)),
        Stage("c10_chains", variant="chk", kind="sharded", n=(16000, 200000), timeout=(300, 1800)),
        Stage("c10_chains", kind="miri", args=["--n", "54"], miri_flags=MIRI_SERIAL, timeout=(900, 1800)),
    ],
)
