#!/usr/bin/env python3
"""Regenerates MANIFEST.json from lib/props.py + lib/manifest_meta.py so the two cannot drift."""
import json, os, sys
sys.path.insert(0, os.path.dirname(os.path.abspath(__file__)))
import props, manifest_meta as mm

ALL = [json.loads(l)["id"] for l in open(os.path.join(os.path.dirname(__file__), "..", "properties.jsonl"))]
checks = []
for pid in ALL:
    if pid not in props.PROPS:
        continue
    spec = props.PROPS[pid]
    meta = mm.META[pid]
    checks.append({
        "property_id": pid,
        "quick_cmd": "./check %s --tier quick" % pid,
        "thorough_cmd": "./check %s --tier thorough" % pid,
        "evidence_file": "evidence/%s.json" % pid,
        "replay_cmd_template": "./check %s --replay {path}" % pid,
        "engine": "monitors",
        "level_claimed": {"category": spec["level"], "text": meta["text"], "design_ref": meta.get("design_ref", "DESIGN.md section 5")},
        "level_note": meta["note"],
        "technique": meta["technique"],
    })
na = [{"property_id": pid, "reason": mm.NOT_APPLICABLE.get(pid, "monitor not finished yet; not claimed rather than claimed weakly")}
      for pid in ALL if pid not in props.PROPS]
manifest = {
    "version": 1,
    "setup_cmd": "./check setup",
    "hooks": mm.HOOKS,
    "engines": [{"name": "monitors", "path": "harness/", "serves_properties": [c["property_id"] for c in checks],
                 "kind_free_text": "runtime monitors (differential oracles against reference models, hostile-input workers with "
                                   "panic/abort/hang capture, offline log checkers) + Miri / ASan / TSan / overflow-check builds, "
                                   "driven by ./check"}],
    "checks": checks,
    "not_applicable": na,
    "notes": mm.NOTES,
}
with open(os.path.join(os.path.dirname(__file__), "..", "MANIFEST.json"), "w") as f:
    json.dump(manifest, f, indent=1)
    f.write("\n")
print("checks:", len(checks), "not claimed:", len(na))
