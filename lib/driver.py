"""Driver for the winterfell runtime-monitoring checks.

./check <ID> [--tier quick|thorough] [--replay file]

For one property it builds the harness variants that property needs from /repo's working tree
(path dependencies => cargo rebuilds whatever changed), runs the monitor stages as supervised
subprocesses, matches violation signatures against known_findings.json, writes
evidence/<ID>.json and prints VIOLATION / KNOWN-FINDING / INCONCLUSIVE lines.

Exit codes: 0 held (possibly with known findings), 1 violation, 2 harness error / inconclusive
below the non-triviality floor.
"""
import hashlib
import json
import os
import re
import shutil
import signal
import subprocess
import sys
import time

VERIF = os.path.dirname(os.path.dirname(os.path.abspath(__file__)))
HARNESS = os.path.join(VERIF, "harness")
WORK = os.path.join(VERIF, "work")
NCPU = os.cpu_count() or 4

BASE_ENV = dict(os.environ)
BASE_ENV.update({"CARGO_NET_OFFLINE": "true", "CARGO_TERM_COLOR": "never"})
BASE_ENV.pop("RUSTFLAGS", None)

CFG = "--cfg winterfell_verif"

# ------------------------------------------------------------------------------------------------
# build variants
# ------------------------------------------------------------------------------------------------
VARIANTS = {
    # name: (toolchain, rustflags, cargo args, features, target triple dir)
    "rel": dict(tc="1.87", flags=CFG, args=["--release"], feats=[], sub="release"),
    "chk": dict(tc="1.87", flags=CFG + " -C debug-assertions=on -C overflow-checks=on", args=["--release"], feats=[], sub="release"),
    "par": dict(tc="1.87", flags=CFG, args=["--release"], feats=["concurrent"], sub="release"),
    "async": dict(tc="1.87", flags=CFG, args=["--release", "--no-default-features"], feats=["async"], sub="release"),
    "asan": dict(tc="nightly", flags=CFG + " -Zsanitizer=address -Cforce-frame-pointers=yes",
                 args=["--release", "--target", "x86_64-unknown-linux-gnu"], feats=[],
                 sub="x86_64-unknown-linux-gnu/release"),
    "tsan": dict(tc="nightly", flags=CFG + " -Zsanitizer=thread",
                 args=["--release", "--target", "x86_64-unknown-linux-gnu", "-Zbuild-std"], feats=["concurrent"],
                 sub="x86_64-unknown-linux-gnu/release"),
}

_built = set()


def log(msg):
    print(msg, flush=True)


def target_dir(variant):
    return os.path.join(HARNESS, "target-" + variant)


def build(variant, pkg):
    """cargo build one package of the harness for a variant; returns path of the binary"""
    v = VARIANTS[variant]
    key = (variant, pkg)
    binpath = os.path.join(target_dir(variant), v["sub"], pkg)
    if key in _built:
        return binpath
    env = dict(BASE_ENV)
    env["RUSTFLAGS"] = v["flags"]
    env["CARGO_TARGET_DIR"] = target_dir(variant)
    cmd = ["cargo", "+" + v["tc"], "build", "--offline", "-p", pkg] + v["args"]
    if v["feats"]:
        cmd += ["--features", ",".join(v["feats"])]
    t0 = time.time()
    p = subprocess.run(cmd, cwd=HARNESS, env=env, stdout=subprocess.PIPE, stderr=subprocess.STDOUT, text=True)
    if p.returncode != 0:
        log(p.stdout[-6000:])
        raise HarnessError("build failed: variant=%s pkg=%s" % (variant, pkg))
    log("[build] %s/%s ok (%.1fs)" % (variant, pkg, time.time() - t0))
    _built.add(key)
    return binpath


class HarnessError(Exception):
    pass


# ------------------------------------------------------------------------------------------------
# subprocess supervision
# ------------------------------------------------------------------------------------------------
def run_proc(cmd, env=None, timeout=None, mem_gb=None, cwd=None):
    """returns (status, rc, stdout+stderr tail) ; status in ok|exit|signal|timeout.
    The address-space limit is applied by a tiny sh wrapper (ulimit -v) rather than a
    preexec_fn, which is slow and unsafe in a multi-threaded parent."""
    e = dict(BASE_ENV)
    if env:
        e.update(env)
    pre = "ulimit -c 0; "
    if mem_gb:
        pre += "ulimit -v %d; " % int(mem_gb * (1 << 20))
    full = ["/bin/sh", "-c", pre + 'exec "$@"', "sh"] + list(cmd)
    try:
        p = subprocess.Popen(full, env=e, cwd=cwd, stdout=subprocess.PIPE, stderr=subprocess.STDOUT,
                             start_new_session=True)
    except OSError as ex:
        raise HarnessError("cannot start %s: %s" % (cmd[0], ex))
    try:
        out, _ = p.communicate(timeout=timeout)
    except subprocess.TimeoutExpired:
        try:
            os.killpg(p.pid, signal.SIGKILL)
        except ProcessLookupError:
            pass
        out, _ = p.communicate()
        return "timeout", None, out.decode("utf8", "replace")[-20000:]
    text = out.decode("utf8", "replace")
    if p.returncode == 0:
        return "ok", 0, text[-20000:]
    if p.returncode < 0:
        return "signal", -p.returncode, text[-20000:]
    if p.returncode > 128 and p.returncode - 128 in (4, 6, 7, 8, 9, 11, 15):
        return "signal", p.returncode - 128, text[-20000:]
    return "exit", p.returncode, text[-20000:]


PANIC_RE = re.compile(r"panicked at ([^\n:]+):(\d+):\d+:\n([^\n]*)")


def crash_signature(text):
    """(in_repo, sig) from an uncaught panic message in a worker's output"""
    m = None
    for m in PANIC_RE.finditer(text):
        pass
    if not m:
        return False, None
    f, msg = m.group(1), m.group(3)
    in_repo = "/repo/" in f or not (f.startswith("mon_") or f.startswith("vcommon") or f.startswith("genair") or "/verif/" in f or f.startswith("/rustc/") or "/.cargo/" in f or "/rustlib/" in f)
    if "/repo/" in f:
        f = f.split("/repo/", 1)[1]
    msg = re.sub(r"\d+", "#", msg)[:160]
    return in_repo, "crash|%s|%s" % (f, msg)


class Stage:
    """One monitor stage.

    kind: plain   - run once; the binary writes a report to --out
          sharded - cases [0, n) are split over worker processes (worker protocol --from/--to/
                    --progress); process death is recorded as an `abort` violation of the case in
                    flight and the shard resumes after it; a watchdog expiry re-runs the case alone.
          miri / asan / tsan - sanitizer runs (see run_sanitizer)
    """

    def __init__(self, name, pkg="mon_leaf", variant="rel", kind="plain", n=(0, 0), args=None, env=None,
                 timeout=(600, 3600), mem_gb=8, shard=None, tiers=("quick", "thorough"), threads=None,
                 miri_flags=None, min_nontrivial=1, per_case_timeout=60):
        self.name, self.pkg, self.variant, self.kind = name, pkg, variant, kind
        self.n, self.args, self.env = n, args or [], env or {}
        self.timeout, self.mem_gb, self.shard = timeout, mem_gb, shard
        self.tiers, self.threads, self.miri_flags = tiers, threads, miri_flags
        self.min_nontrivial = min_nontrivial
        self.per_case_timeout = per_case_timeout

    def label(self):
        return "%s@%s" % (self.name, self.variant) + ("" if self.kind in ("plain", "sharded") else ":" + self.kind)


def stage_out(prop, stage, suffix=""):
    d = os.path.join(WORK, prop)
    os.makedirs(d, exist_ok=True)
    return os.path.join(d, "%s-%s-%s%s.json" % (stage.name, stage.variant, stage.kind, suffix))


def load_report(path):
    try:
        with open(path) as f:
            return json.load(f)
    except (OSError, ValueError):
        return None


def empty_report(prop, stage):
    return {"property": prop, "stage": stage.name, "evaluations": 0, "distinct_nontrivial": 0,
            "distinct_hashes": [], "rule": "", "samples": [], "counters": {}, "extra": {},
            "violations": [], "inconclusive": [], "wall_s": 0.0}


def merge_into(acc, rep):
    acc["evaluations"] += rep.get("evaluations", 0)
    hs = rep.get("distinct_hashes") or []
    if hs:
        acc.setdefault("_hashes", set()).update(hs)
    else:
        acc["_nohash_distinct"] = acc.get("_nohash_distinct", 0) + rep.get("distinct_nontrivial", 0)
    if rep.get("rule") and not acc.get("rule"):
        acc["rule"] = rep["rule"]
    for s in rep.get("samples", []):
        if len(acc["samples"]) < 4:
            acc["samples"].append(s)
    for k, v in rep.get("counters", {}).items():
        acc["counters"][k] = acc["counters"].get(k, 0) + v
    for k, v in rep.get("extra", {}).items():
        if k not in acc["extra"]:
            acc["extra"][k] = v
        elif isinstance(v, (int, float)) and isinstance(acc["extra"][k], (int, float)):
            acc["extra"][k] += v
        elif isinstance(v, list) and isinstance(acc["extra"][k], list):
            for x in v:
                if x not in acc["extra"][k]:
                    acc["extra"][k].append(x)
        elif isinstance(v, dict) and isinstance(acc["extra"][k], dict):
            for kk, vv in v.items():
                if isinstance(vv, (int, float)) and isinstance(acc["extra"][k].get(kk), (int, float)):
                    acc["extra"][k][kk] += vv
                else:
                    acc["extra"][k].setdefault(kk, vv)
    for key in ("violations", "inconclusive"):
        for v in rep.get(key, []):
            for e in acc[key]:
                if e["sig"] == v["sig"]:
                    e["count"] += v["count"]
                    for x in v.get("examples", []):
                        if len(e["examples"]) < 3:
                            e["examples"].append(x)
                    break
            else:
                acc[key].append({"sig": v["sig"], "count": v["count"], "examples": list(v.get("examples", []))[:3]})
    acc["wall_s"] += rep.get("wall_s", 0.0)


def finish_acc(acc):
    hs = acc.pop("_hashes", set())
    acc["distinct_nontrivial"] = len(hs) + acc.pop("_nohash_distinct", 0)
    acc["distinct_hashes"] = sorted(hs) if len(hs) <= 50000 else []
    return acc


def common_args(stage, seed, tier, out):
    return [stage.name, "--seed", str(seed), "--tier", tier, "--out", out] + list(stage.args)


def stage_env(stage):
    env = dict(stage.env)
    if stage.threads is not None:
        env["RAYON_NUM_THREADS"] = str(stage.threads)
    return env


def run_plain(prop, stage, seed, tier):
    binpath = build(stage.variant, stage.pkg)
    out = stage_out(prop, stage, "-t%s" % stage.threads if stage.threads else "")
    if os.path.exists(out):
        os.remove(out)
    tmo = stage.timeout[1 if tier == "thorough" else 0]
    st, rc, text = run_proc([binpath] + common_args(stage, seed, tier, out), env=stage_env(stage), timeout=tmo,
                            mem_gb=stage.mem_gb)
    rep = load_report(out)
    if st == "ok" and rep is not None:
        return rep
    rep = rep or empty_report(prop, stage)
    if st == "timeout":
        rep["inconclusive"].append({"sig": "watchdog|%s" % stage.label(), "count": 1,
                                    "examples": [{"timeout_s": tmo}]})
        return rep
    in_repo, sig = crash_signature(text)
    if sig and in_repo:
        rep["violations"].append({"sig": sig, "count": 1, "examples": [{"stage": stage.label(), "output_tail": text[-1500:]}]})
        return rep
    raise HarnessError("stage %s failed (%s rc=%s):\n%s" % (stage.label(), st, rc, text[-3000:]))


def run_sharded(prop, stage, seed, tier):
    """cases [0,n) over NCPU workers with restart-after-crash"""
    from concurrent.futures import ThreadPoolExecutor
    binpath = build(stage.variant, stage.pkg)
    n = stage.n[1 if tier == "thorough" else 0]
    shard = stage.shard or max(1, (n + NCPU * 4 - 1) // (NCPU * 4))
    ranges = [(a, min(n, a + shard)) for a in range(0, n, shard)]
    tmo = stage.timeout[1 if tier == "thorough" else 0]
    acc = empty_report(prop, stage)
    acc_lock = __import__("threading").Lock()

    def work(idx_rng):
        idx, (a, b) = idx_rng
        reports, extra_v, extra_i = [], [], []
        cur = a
        skip = []
        restarts = 0
        while cur < b:
            out = stage_out(prop, stage, "-s%d-%d" % (idx, restarts))
            prog = out + ".progress"
            for p in (out, prog, out + ".partial"):
                if os.path.exists(p):
                    os.remove(p)
            cmd = [binpath] + common_args(stage, seed, tier, out) + ["--from", str(cur), "--to", str(b), "--progress", prog]
            if skip:
                cmd += ["--skip", ",".join(str(x) for x in skip)]
            st, rc, text = run_proc(cmd, env=stage_env(stage), timeout=tmo, mem_gb=stage.mem_gb)
            rep = load_report(out)
            if st == "ok" and rep is not None:
                reports.append(rep)
                break
            # abnormal end: which case was in flight?
            try:
                with open(prog) as f:
                    inflight = int(f.read().strip().split()[0])
            except (OSError, ValueError, IndexError):
                inflight = None
            if inflight is None or inflight < cur or inflight in skip:
                raise HarnessError("worker %s died without progress (%s rc=%s):\n%s" % (stage.label(), st, rc, text[-3000:]))
            # partial report from the worker's periodic flush covers [cur, covered_to); everything
            # after it is re-run (minus the case that killed the worker), so nothing observed in
            # memory is lost
            part = load_report(out + ".partial")
            if part is not None and isinstance(part.get("extra", {}).get("covered_to"), int):
                cur = max(cur, part["extra"].pop("covered_to"))
                reports.append(part)
            detail = {"stage": stage.label(), "seed": seed, "case": inflight, "how": st, "rc": rc,
                      "output_tail": text[-800:]}
            if st == "timeout":
                # re-run the single case alone with a generous limit
                st2, rc2, text2 = run_proc([binpath] + common_args(stage, seed, tier, out + ".solo") +
                                           ["--from", str(inflight), "--to", str(inflight + 1), "--progress", prog + ".solo"],
                                           env=stage_env(stage), timeout=stage.per_case_timeout, mem_gb=stage.mem_gb)
                if st2 == "timeout":
                    extra_v.append({"sig": "hang|%s" % stage.name, "count": 1, "examples": [detail]})
                elif st2 == "ok":
                    extra_i.append({"sig": "watchdog-shard|%s" % stage.label(), "count": 1, "examples": [detail]})
                    solo = load_report(out + ".solo")
                    if solo:
                        reports.append(solo)
                else:
                    st, rc, text = st2, rc2, text2
            if st != "timeout":
                in_repo, sig = crash_signature(text)
                if st == "exit" and sig and not in_repo:
                    raise HarnessError("worker %s harness panic:\n%s" % (stage.label(), text[-3000:]))
                kind = "abort"
                if "memory allocation of" in text:
                    kind = "alloc-abort"
                if "AddressSanitizer" in text:
                    m = re.search(r"AddressSanitizer: ([a-zA-Z-]+)", text)
                    kind = "asan-" + (m.group(1) if m else "report")
                    sigtxt = "%s|%s|%s" % (kind, stage.name, first_repo_frame(text))
                elif sig:
                    sigtxt = "%s|%s|%s" % (kind, stage.name, sig)
                else:
                    sigtxt = "%s|%s|signal=%s" % (kind, stage.name, rc)
                extra_v.append({"sig": sigtxt, "count": 1, "examples": [detail]})
            skip.append(inflight)
            restarts += 1
            if restarts > 400:
                raise HarnessError("worker %s: more than 400 restarts in one shard" % stage.label())
        with acc_lock:
            for r in reports:
                merge_into(acc, r)
            merge_into(acc, {"violations": extra_v, "inconclusive": extra_i})

    with ThreadPoolExecutor(max_workers=NCPU) as ex:
        list(ex.map(work, enumerate(ranges)))
    return finish_acc(acc)


def first_repo_frame(text):
    for m in re.finditer(r"#\d+ 0x[0-9a-f]+ in (\S+) (/repo/[^\s:]+)", text):
        return "%s@%s" % (re.sub(r"::h[0-9a-f]{16}$", "", m.group(1)), m.group(2).split("/repo/", 1)[1])
    for m in re.finditer(r"#\d+ 0x[0-9a-f]+ in (\S+)", text):
        name = m.group(1)
        if any(k in name for k in ("winter", "utils::", "math::", "crypto::", "fri::", "air::", "prover::", "verifier::")):
            return re.sub(r"::h[0-9a-f]{16}$", "", name)
    return "?"


def run_miri(prop, stage, seed, tier):
    """cargo +nightly miri run; UB => violation. The monitor still writes its report."""
    out = stage_out(prop, stage)
    if os.path.exists(out):
        os.remove(out)
    flags = stage.miri_flags or "-Zmiri-disable-isolation"
    env = dict(BASE_ENV)
    env.update(stage_env(stage))
    if stage.threads is not None:
        flags += " -Zmiri-env-set=RAYON_NUM_THREADS=%d" % stage.threads
    env["MIRIFLAGS"] = flags
    env["RUSTFLAGS"] = CFG
    env["CARGO_TARGET_DIR"] = target_dir("miri")
    cmd = ["cargo", "+nightly", "miri", "run", "--release", "--offline", "-p", stage.pkg]
    if "concurrent" in (stage.env.get("FEATURES") or ""):
        cmd += ["--features", "concurrent"]
    cmd += ["--"] + common_args(stage, seed, tier, out)
    tmo = stage.timeout[1 if tier == "thorough" else 0]
    st, rc, text = run_proc(cmd, env=env, timeout=tmo, cwd=HARNESS, mem_gb=None)
    rep = load_report(out) or empty_report(prop, stage)
    if st == "ok":
        rep["counters"]["miri_clean_runs"] = rep["counters"].get("miri_clean_runs", 0) + 1
        return rep
    if st == "timeout":
        rep["inconclusive"].append({"sig": "watchdog|%s" % stage.label(), "count": 1, "examples": [{"timeout_s": tmo}]})
        return rep
    if "Undefined Behavior" in text or "error: unsupported operation" not in text and "error:" in text and "miri" in text.lower():
        m = re.search(r"error: Undefined Behavior: ([^\n]*)", text)
        what = re.sub(r"0x[0-9a-f]+|\d+", "#", m.group(1))[:120] if m else "error"
        loc = "?"
        for lm in re.finditer(r"--> (/repo/[^\s:]+):(\d+)", text):
            loc = lm.group(1).split("/repo/", 1)[1]
            break
        if m:
            rep["violations"].append({"sig": "miri|%s|%s" % (loc, what), "count": 1,
                                      "examples": [{"stage": stage.label(), "output_tail": text[-2500:]}]})
            return rep
    in_repo, sig = crash_signature(text)
    if sig and in_repo:
        rep["violations"].append({"sig": sig, "count": 1, "examples": [{"stage": stage.label(), "output_tail": text[-1500:]}]})
        return rep
    raise HarnessError("miri stage %s failed (%s rc=%s):\n%s" % (stage.label(), st, rc, text[-4000:]))


def run_tsan(prop, stage, seed, tier):
    binpath = build("tsan", stage.pkg)
    out = stage_out(prop, stage)
    if os.path.exists(out):
        os.remove(out)
    env = stage_env(stage)
    env["TSAN_OPTIONS"] = "halt_on_error=0 exitcode=66 report_signal_unsafe=0"
    tmo = stage.timeout[1 if tier == "thorough" else 0]
    st, rc, text = run_proc([binpath] + common_args(stage, seed, tier, out), env=env, timeout=tmo, mem_gb=None)
    rep = load_report(out) or empty_report(prop, stage)
    nrep = text.count("WARNING: ThreadSanitizer")
    m = re.search(r"ThreadSanitizer: reported (\d+) warnings", text)
    if m:
        nrep = max(nrep, int(m.group(1)))
    if rc == 66 and nrep == 0:
        nrep = 1  # exitcode=66 is reserved for reports; the header may be outside the kept output tail
    rep["counters"]["tsan_reports"] = nrep
    if st == "timeout":
        rep["inconclusive"].append({"sig": "watchdog|%s" % stage.label(), "count": 1, "examples": [{"timeout_s": tmo}]})
        return rep
    if nrep:
        m = re.search(r"(?:WARNING|SUMMARY): ThreadSanitizer: ([a-z -]*[a-z])", text)
        rep["violations"].append({"sig": "tsan|%s|%s" % (m.group(1).strip() if m else "report", first_repo_frame(text)),
                                  "count": nrep, "examples": [{"stage": stage.label(), "output_tail": text[-3000:]}]})
        return rep
    if st == "ok":
        rep["counters"]["tsan_clean_runs"] = 1
        return rep
    in_repo, sig = crash_signature(text)
    if sig and in_repo:
        rep["violations"].append({"sig": sig, "count": 1, "examples": [{"stage": stage.label(), "output_tail": text[-1500:]}]})
        return rep
    raise HarnessError("tsan stage %s failed (%s rc=%s):\n%s" % (stage.label(), st, rc, text[-3000:]))


def run_stage(prop, stage, seed, tier):
    if stage.kind == "plain":
        return run_plain(prop, stage, seed, tier)
    if stage.kind == "sharded":
        return run_sharded(prop, stage, seed, tier)
    if stage.kind == "miri":
        return run_miri(prop, stage, seed, tier)
    if stage.kind == "tsan":
        return run_tsan(prop, stage, seed, tier)
    raise HarnessError("unknown stage kind " + stage.kind)


# ------------------------------------------------------------------------------------------------
# known findings, evidence, verdict
# ------------------------------------------------------------------------------------------------
def load_known():
    with open(os.path.join(VERIF, "known_findings.json")) as f:
        k = json.load(f)
    return k.get("findings", [])


def decide(prop, spec, seed, tier, stage_reports, wall):
    known = [k for k in load_known() if k["property"] == prop]
    acc = empty_report(prop, Stage("all"))
    per_stage = {}
    for st, rep in stage_reports:
        merge_into(acc, rep)
        per_stage[st.label() + ("/t%s" % st.threads if st.threads else "")] = {
            "evaluations": rep.get("evaluations", 0),
            "distinct_nontrivial": rep.get("distinct_nontrivial", 0),
            "counters": rep.get("counters", {}),
            "extra": rep.get("extra", {}),
            "wall_s": round(rep.get("wall_s", 0.0), 2),
        }
    finish_acc(acc)
    new, hit = [], []
    for v in acc["violations"]:
        for k in known:
            if k["signature"] == v["sig"]:
                hit.append((k, v))
                break
        else:
            new.append(v)
    os.makedirs(os.path.join(VERIF, "replays", prop), exist_ok=True)
    lines = []
    for k, v in hit:
        lines.append("KNOWN-FINDING: property=%s %s [sig=%s, seen %d times]" % (prop, k["what"], v["sig"], v["count"]))
    for v in new:
        h = hashlib.sha1(v["sig"].encode()).hexdigest()[:12]
        path = os.path.join(VERIF, "replays", prop, h + ".json")
        with open(path, "w") as f:
            json.dump({"property": prop, "seed": seed, "tier": tier, "signature": v["sig"], "count": v["count"],
                       "examples": v["examples"]}, f, indent=1)
        lines.append("VIOLATION property=%s replay=%s" % (prop, path))
        lines.append("  signature: %s (x%d)" % (v["sig"], v["count"]))
    for v in acc["inconclusive"]:
        lines.append("INCONCLUSIVE: property=%s %s (x%d)" % (prop, v["sig"], v["count"]))
    floor = spec.get("floor", 2)
    evidence = {
        "property_id": prop,
        "tier": tier,
        "seed": seed,
        "level": spec["level"],
        "coverage": {
            "evaluations": acc["evaluations"],
            "distinct_nontrivial": acc["distinct_nontrivial"],
            "rule": spec["rule"],
            "samples": acc["samples"] or [],
            "stages": per_stage,
            "counters": acc["counters"],
            "known_findings_hit": [{"signature": v["sig"], "count": v["count"]} for _, v in hit],
            "new_violation_signatures": [v["sig"] for v in new],
            "inconclusive": [{"sig": v["sig"], "count": v["count"]} for v in acc["inconclusive"]],
        },
        "assumptions": spec.get("assumptions", []),
        "wall_s": round(wall, 2),
        "violations": len(new),
    }
    if spec.get("exhaustive"):
        evidence["coverage"]["exhaustive"] = True
    if spec.get("explanation"):
        evidence["coverage"]["explanation"] = spec["explanation"]
    os.makedirs(os.path.join(VERIF, "evidence"), exist_ok=True)
    with open(os.path.join(VERIF, "evidence", prop + ".json"), "w") as f:
        json.dump(evidence, f, indent=1, sort_keys=True)
        f.write("\n")
    for l in lines:
        log(l)
    log("[%s] tier=%s seed=%d evaluations=%d distinct_nontrivial=%d wall=%.1fs" %
        (prop, tier, seed, acc["evaluations"], acc["distinct_nontrivial"], wall))
    if new:
        return 1
    if acc["distinct_nontrivial"] < floor or not acc["samples"]:
        log("HARNESS-ERROR: property=%s observed too little (distinct_nontrivial=%d < floor %d)" %
            (prop, acc["distinct_nontrivial"], floor))
        return 2
    return 0


def run_property(prop, spec, seed, tier):
    t0 = time.time()
    shutil.rmtree(os.path.join(WORK, prop), ignore_errors=True)
    stages = [st for st in spec["stages"] if tier in st.tiers]
    # builds first (sequential: cargo uses every core), then the single-process stages side by side,
    # then the sharded ones (which fan out over all cores themselves)
    for st in stages:
        if st.kind in ("plain", "sharded"):
            build(st.variant, st.pkg)
        elif st.kind == "tsan":
            build("tsan", st.pkg)
    results = {}

    def one(i_st):
        i, st = i_st
        t1 = time.time()
        try:
            rep = run_stage(prop, st, seed, tier)
        except HarnessError as ex:
            return i, st, ex, time.time() - t1
        return i, st, rep, time.time() - t1

    from concurrent.futures import ThreadPoolExecutor
    solo = [(i, st) for i, st in enumerate(stages) if st.kind != "sharded"]
    shard = [(i, st) for i, st in enumerate(stages) if st.kind == "sharded"]
    with ThreadPoolExecutor(max_workers=max(2, NCPU // 2)) as ex:
        done = list(ex.map(one, solo))
    for item in shard:
        done.append(one(item))
    reports = []
    failed = [(st, rep) for _, st, rep, _ in done if isinstance(rep, HarnessError)]
    any_violation = any(not isinstance(rep, HarnessError) and rep.get("violations") for _, _, rep, _ in done)
    for i, st, rep, dt in sorted(done, key=lambda x: x[0]):
        if isinstance(rep, HarnessError):
            if not any_violation:
                raise rep
            # other stages did observe violations: report those, and this stage as inconclusive
            log("HARNESS-ERROR (stage %s): %s" % (st.label(), str(rep)[-1500:]))
            e = empty_report(prop, st)
            e["inconclusive"].append({"sig": "stage-failed|%s" % st.label(), "count": 1, "examples": []})
            rep = e
        log("[stage] %s: evals=%d distinct=%d viol_sigs=%d (%.1fs)" % (
            st.label() + ("/t%s" % st.threads if st.threads else ""), rep.get("evaluations", 0),
            rep.get("distinct_nontrivial", 0), len(rep.get("violations", [])), dt))
        reports.append((st, rep))
    post = spec.get("post")
    if post:
        extra = post(prop, reports, seed, tier)
        if extra:
            reports.append((Stage("offline-checker"), extra))
    return decide(prop, spec, seed, tier, reports, time.time() - t0)


def main(props):
    import argparse
    ap = argparse.ArgumentParser()
    ap.add_argument("prop")
    ap.add_argument("--tier", default=os.environ.get("VERIF_TIER", "quick"))
    ap.add_argument("--seed", type=int, default=int(os.environ.get("VERIF_SEED", "1")))
    ap.add_argument("--replay", default=None)
    a = ap.parse_args()
    if a.tier not in ("quick", "thorough"):
        a.tier = "quick"
    if a.replay:
        with open(a.replay) as f:
            r = json.load(f)
        a.seed, a.tier = r.get("seed", a.seed), r.get("tier", a.tier)
        log("[replay] property=%s seed=%d tier=%s signature=%s" % (r["property"], a.seed, a.tier, r["signature"]))
    if a.prop == "setup":
        return setup(props)
    if a.prop not in props:
        log("unknown property %s" % a.prop)
        return 2
    try:
        return run_property(a.prop, props[a.prop], a.seed, a.tier)
    except HarnessError as ex:
        log("HARNESS-ERROR: %s" % ex)
        return 2


def setup(props):
    """build every (variant, pkg) any stage needs, so later checks are incremental"""
    need = []
    for spec in props.values():
        for st in spec["stages"]:
            if st.kind in ("plain", "sharded"):
                k = (st.variant, st.pkg)
            elif st.kind == "tsan":
                k = ("tsan", st.pkg)
            else:
                continue
            if k not in need:
                need.append(k)
    try:
        for v, p in need:
            build(v, p)
    except HarnessError as ex:
        log("HARNESS-ERROR: %s" % ex)
        return 2
    return 0
