#!/usr/bin/env python3
"""prints the markdown table of seeded changes vs checks from seeded/*/meta.json (for DESIGN.md 0a.6)"""
import json, glob, os
V = os.path.join(os.path.dirname(os.path.abspath(__file__)), "..")
rows = []
for d in sorted(glob.glob(os.path.join(V, "seeded", "*/"))):
    m = json.load(open(os.path.join(d, "meta.json")))
    det = m.get("detected_by") or []
    mis = m.get("not_detected_by") or []
    src = "revert of a fix" if m["seed_id"].startswith("R-") else "sub-agent"
    caught = ", ".join("%s (%s)" % (x["check"], (x.get("first_signature") or "").replace("signature: ", "").replace("|", "/")[:70]) for x in det) or "-"
    missed = ", ".join(x["check"] for x in mis) or "-"
    rows.append("| %s | %s | %s | %s | %s | %s |" % (m["seed_id"], m["breaks_property"], src, (m.get("needs_to_manifest") or "")[:110].replace("|", "/"), caught, missed if not det else ("also ran, silent: " + missed if mis else "")))
print("| seed | property | source | needs to manifest | caught by (quick tier; first signature) | not caught by |")
print("|---|---|---|---|---|---|")
print("\n".join(rows))
