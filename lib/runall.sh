#!/bin/bash
# runall.sh [tier] [seed] [rev] : every claimed check once, sequentially (rev: last to first); summary on stdout
TIER=${1:-quick}; SEED=${2:-1}; ORDER=${3:-fwd}
cd "$(dirname "$0")/.."
# RUNALL_ONLY="C06 C07 ..." restricts the run to the listed ids
for id in ${RUNALL_ONLY:-$(python3 -c "import json,sys;ids=[c['property_id'] for c in json.load(open('MANIFEST.json'))['checks']];print(' '.join(ids[::-1] if sys.argv[1]=='rev' else ids))" $ORDER)}; do
  t0=$(date +%s)
  VERIF_SEED=$SEED ./check $id --tier $TIER > work/runall_$id.log 2>&1; rc=$?
  t1=$(date +%s)
  echo "$id rc=$rc secs=$((t1-t0)) viol=$(grep -c '^VIOLATION' work/runall_$id.log) known=$(grep -c '^KNOWN-FINDING' work/runall_$id.log) inconcl=$(grep -c '^INCONCLUSIVE' work/runall_$id.log) $(grep -E '^\[C[0-9]+\] tier' work/runall_$id.log | sed 's/.*evaluations/evaluations/')"
done
