#!/bin/bash
# seedtest.sh <seed_id> <PROP> [<PROP>...]
# Runs the quick checks of the given properties against a seeded change, in a scratch copy
# (/tmp/seedrun: worktree of /repo HEAD + copy of /verif with path deps rewritten), so that
# (or $SEEDRUN_DIR, for parallel slots) /repo itself is never modified and development can continue. Appends to /tmp/seedrun/results.jsonl
set -u
SID=$1; shift
S=${SEEDRUN_DIR:-/tmp/seedrun}
mkdir -p $S
exec 9>$S/lock; flock 9
HEAD=$(git -C /repo rev-parse HEAD)
if [ ! -d $S/repo ]; then git -C /repo worktree add -q --detach $S/repo $HEAD; fi
git -C $S/repo checkout -q -- . ; git -C $S/repo clean -fdq -e target; git -C $S/repo checkout -q --detach $HEAD
cp /repo/Cargo.lock $S/repo/ 2>/dev/null
rsync -a --delete --exclude 'harness/target*' --exclude work --exclude .git --exclude replays --exclude evidence /verif/ $S/verif/
mkdir -p $S/verif/evidence $S/verif/replays
sed -i "s#\"/repo/#\"$S/repo/#g" $S/verif/harness/*/Cargo.toml
PATCH=/verif/seeded/$SID/patch.diff
if ! git -C $S/repo apply $PATCH; then echo "{\"seed\":\"$SID\",\"error\":\"patch does not apply\"}" >> $S/results.jsonl; exit 2; fi
for P in "$@"; do
  t0=$(date +%s)
  (cd $S/verif && ./check $P --tier quick) > $S/log_${SID}_$P.txt 2>&1; rc=$?
  t1=$(date +%s)
  sigs=$(grep -c "^VIOLATION" $S/log_${SID}_$P.txt)
  first=$(grep -m1 "signature:" $S/log_${SID}_$P.txt | sed 's/"/\\"/g' | cut -c1-200)
  echo "{\"seed\":\"$SID\",\"check\":\"$P\",\"rc\":$rc,\"violation_lines\":$sigs,\"first\":\"$first\",\"secs\":$((t1-t0))}" >> $S/results.jsonl
done
git -C $S/repo checkout -q -- . ; git -C $S/repo clean -fdq -e target
