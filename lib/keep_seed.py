#!/usr/bin/env python3
"""keep_seed.py <change_dir> <seed_id> <property> -- copies a confirmed seeded change into /verif/seeded/<seed_id>/"""
import json, os, shutil, sys, glob, re
src, sid, prop = sys.argv[1:4]
dst = os.path.join(os.path.dirname(os.path.abspath(__file__)), "..", "seeded", sid)
os.makedirs(dst, exist_ok=True)
shutil.copy(os.path.join(src, "patch.diff"), dst)
for f in glob.glob(os.path.join(src, "*.rs")) + glob.glob(os.path.join(src, "demo", "*")) + [os.path.join(src, "notes.md")]:
    if os.path.isfile(f):
        shutil.copy(f, dst)
confirm = None
for line in open(os.path.join(os.path.dirname(src.rstrip("/")), "..", "confirm_all.log")):
    try:
        j = json.loads(line)
    except ValueError:
        continue
    if j.get("change", "").rstrip("/") == src.rstrip("/"):
        confirm = j
notes = open(os.path.join(src, "notes.md")).read() if os.path.exists(os.path.join(src, "notes.md")) else ""
meta = {
    "seed_id": sid,
    "breaks_property": prop,
    "source": "independent sub-agent given only the property text and a scratch worktree",
    "needs_to_manifest": sys.argv[4] if len(sys.argv) > 4 else "",
    "confirmed_by": "lib/confirm_seed.sh in a scratch worktree: demo passes on clean tree, fails with patch, full suite (244 tests + 44 doctests) passes with patch",
    "confirmation": confirm,
    "detected_by": [],
}
with open(os.path.join(dst, "meta.json"), "w") as f:
    json.dump(meta, f, indent=1)
print("kept", sid)
