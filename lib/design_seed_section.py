#!/usr/bin/env python3
"""rewrites the generated seed table between the markers in DESIGN.md (section 0a.6)"""
import os, re, subprocess, sys
V = os.path.join(os.path.dirname(os.path.abspath(__file__)), "..")
table = subprocess.run([sys.executable, os.path.join(V, "lib", "seed_table.py")], stdout=subprocess.PIPE, text=True, check=True).stdout
p = os.path.join(V, "DESIGN.md")
s = open(p).read()
s = re.sub(r"<!-- seed-table-begin -->.*<!-- seed-table-end -->", lambda m: "<!-- seed-table-begin -->\n" + table + "<!-- seed-table-end -->", s, flags=re.S)
open(p, "w").write(s)
