"""Human-written parts of MANIFEST.json."""

HOOKS = {
    "guard": "--cfg winterfell_verif",
    "enable": "RUSTFLAGS='--cfg winterfell_verif' when building the harness (path deps on /repo crates); see lib/driver.py VARIANTS",
    "baseline_off_cmd": "cd /repo && cargo test --workspace --no-fail-fast --offline",
    "source_commits": ["48bc805 verif hook: expose Rp62_248 permutation and MDS under cfg(winterfell_verif)",
                       "2921bf0 verif hook: failpoints that switch off one verifier commitment check at a time"],
    "add_only": True,
}

NOTES = ("Every check is `./check <ID>`; it rebuilds the harness against /repo's working tree, runs monitor stages in "
         "supervised subprocesses, writes evidence/<ID>.json and prints VIOLATION / KNOWN-FINDING / INCONCLUSIVE lines. "
         "Exit 0 held, 1 violation, 2 harness error. Known findings: known_findings.json. Seeded breaks: seeded/.")

NOT_APPLICABLE = {}

META = {}

META["C26"] = dict(
    technique="differential round-trip monitor + hostile-input workers + Miri",
    text="Round trip, exact consumption and documented vint64 encoding are checked on ~20k boundary-biased values of 30 "
         "types (every vint64 length boundary exhaustively), every strict prefix must be rejected, and 20k corrupted "
         "encodings are decoded as 13 types in isolated workers where a panic, abort (allocation) or hang is a violation; "
         "repeated with overflow/debug assertions and a slice under Miri. Sampling, not proof.",
    note="Trusted: the harness' own 10-line vint64 reference and Rust's std. Not reachable on this 64-bit host: the "
         "'size value does not fit the platform' branch.",
)
META["C27"] = dict(
    technique="differential monitor against SliceReader (exhaustive small space + random) + ASan + Miri",
    text="ReadAdapter is run against the in-memory SliceReader on the same content for every chunking x read-size "
         "composition of contents up to 8 bytes (11 thorough) and on 200k (5M) random (content, chunk schedule, op "
         "sequence) cases; any differing value, differing error, false end-of-input from check_eor, panic, or "
         "ASan/Miri report is a violation.",
    note="Assumes SliceReader is the specification (as the property states). Lengths are bounded so SliceReader's own "
         "usize overflow is not triggered here.",
)
META["C10"] = dict(
    technique="differential monitor against reference modular arithmetic (boundary lattice + operation chains), termination watchdog, Miri",
    text="Every operation result is compared with independent canonical-integer arithmetic over the documented prime and "
         "irreducible polynomial; operands are drawn at internal-representation boundaries and results are fed back as "
         "operands (chains), so non-canonical intermediates occur as in real use; `==` is compared with canonical equality "
         "and inversion must return within 3 s. ~0.6M operations quick, ~15M thorough; the boundary bands are exhaustive.",
    note="Trusted: refarith.rs (u128 `%`, double-and-add for f128, Gaussian elimination for extension inverses; self-test "
         "at start). Sampling outside the lattice bands.",
)
META["C11"] = dict(
    technique="executed oracles on the code's constants + accept-iff-canonical decoder monitor",
    text="Constants are checked by running number-theoretic oracles on the values the code exports (not by comparing "
         "with copies): primality, two-adicity, generator order, every root-of-unity order exhaustively, irreducibility of "
         "the extension polynomials the code actually multiplies by, Frobenius as p-th power. All decoders are driven with "
         "values at and around the modulus and type limits in every coefficient position; accept iff canonical.",
    note="Trusted: refarith.rs and the embedded factorisations (re-verified at start).",
)
META["C13"] = dict(
    technique="differential monitor against reference polynomial arithmetic",
    text="Each helper is executed on thousands of random polynomial inputs per field (incl. zero / zero-padded vectors, x=0 "
         "interpolation points, duplicate roots) and its output compared coefficient-wise with schoolbook reference "
         "arithmetic over the reference field; panics inside documented preconditions are violations.",
    note="Trusted: refarith.rs polynomial routines (Horner, schoolbook mul, long division, O(n^2) Lagrange).",
)
META["C14"] = dict(
    technique="differential monitor vs element-wise definitions across builds and thread counts + TSan + Miri",
    text="Outputs of the batch utilities are checked element by element against the reference (x*inv==1 or 0->0, "
         "successive powers, sums) for every small length and for lengths straddling the parallel batch boundaries of "
         "the actual thread count, in the serial build and in the concurrent build at 3 (6) thread counts; a TSan build "
         "must report no race and Miri no UB on the uninit_vector consumers.",
    note="Thread counts are set through RAYON_NUM_THREADS; the parallel-path predicate is derived, not hooked.",
)
META["C12"] = dict(
    technique="differential monitor against naive DFT + cross-run output-digest checker over builds/thread counts + TSan + Miri",
    text="FFT outputs are compared point by point with Horner evaluation in reference arithmetic at offset*g^i (natural "
         "order), for every size across the 512-element recursion switch and the 1024-element concurrency threshold; "
         "the same cases run in the serial build and in the concurrent build at several thread counts and an offline "
         "checker requires identical output digests; TSan must be silent; Miri interprets small sizes.",
    note="Above the full-check limit only 69 positions per output are compared with the reference; the digest comparison "
         "then extends the serial result to the parallel runs.",
)
META["C15"] = dict(
    technique="differential monitor against the blake3 / sha3 primitives on an independently assembled byte layout",
    text="For every hasher x field the digest is recomputed with the primitive crate over bytes the monitor builds itself "
         "from canonical little-endian values; element inputs carry non-canonical internal representations so that a "
         "raw-memory shortcut would show.",
    note="Trusted: blake3 and sha3 crates.",
)
META["C16"] = dict(
    technique="differential monitor against a reference Rescue-Prime implementation (permutation on arbitrary states via hook, sponge/Jive rules)",
    text="The permutation is compared on thousands of boundary-biased states with a reference that uses plain modpow for "
         "both S-boxes and a matrix product for the MDS layer; all hashing modes are recomputed from the documented "
         "absorption / padding / capacity / Jive rules on inputs of every block alignment.",
    note="Constants are not re-derived (pinned by golden digests). Hook: Rp62_248::verif_apply_permutation / VERIF_MDS / VERIF_ARK*.",
)
META["C17"] = dict(
    technique="collision monitor over structured input families",
    text="Input families that collide under faulty padding (prefixes, zero extensions, terminator-byte extensions, "
         "chunk-boundary lengths, trailing zero elements, digest-list splits, integers congruent mod p) are hashed and "
         "every family must be collision-free.",
    note="Only the listed families are explored; a padding fault that needs another relation between inputs is out of reach.",
)
META["C18"] = dict(
    technique="differential monitor against a recursive-hash reference over all three batch-proof routes + cross-run root-digest checker over builds/thread counts + TSan + Miri",
    text="Every tree node is observed (root, serial node array, all opened paths) and compared with a level-by-level pairwise "
         "hash; all non-empty index subsets of small trees and structured/random subsets of larger ones are opened in four "
         "orders and pushed through prove_batch, get_root, verify_batch, from_single_proofs, into_openings and the "
         "VectorCommitment facade, with equality between the routes; the same cases run in the serial and the concurrent "
         "build at several thread counts (incl. non-powers of two) and an offline checker requires identical roots.",
    note="Subsets are exhaustive only up to the stated leaf count; above it they are sampled.",
)
META["C19"] = dict(
    technique="fault-substitution monitor on honest openings + hostile-input workers (release, overflow-check, ASan) with panic/abort capture",
    text="Each honest opening is re-verified after every single substitution the property lists and must be rejected; "
         "tens of thousands of structurally mutated / random batch proofs, index lists and leaf lists (and mutated "
         "encodings) are pushed through get_root, verify_batch and into_openings in isolated workers where a panic, abort "
         "or sanitizer report is a violation.",
    note="Surplus trailing data that verification never reads is not judged (see assumptions).",
)
META["C20"] = dict(
    technique="history monitor against an executable model of the coin (two real coins + model per history)",
    text="Random reseed/draw/draw_integers/check_leading_zeros histories are applied to two independent real coins and to a "
         "25-line model of the documented seed/counter machine with an independent element decoder; every step's output "
         "must be identical across the three, counts and ranges of integer draws are checked directly, and reseeding "
         "sensitivity is checked on real coins.",
    note="The model shares the Hasher trait functions with the code; it does not re-derive the hash.",
)
META["C21"] = dict(
    technique="exhaustive executed oracle in a bounded domain (explicit cell sets vs apply / get_num_steps / validate_trace_length / overlaps_with on every ordered pair)",
    text="The code's answers are compared with explicit cell sets written down from the documentation for every assertion "
         "and every ordered pair of assertions at every power-of-two trace length up to 256 (1024 thorough); inside that "
         "bound nothing is sampled except the assertion lists handed to BoundaryConstraints::new.",
    note="Bounded: trace lengths above the bound and more than two columns are not run (columns are compared first, so two suffice).",
)
META["C24"] = dict(
    technique="pairwise injectivity monitor over one-parameter context edits, in three element fields",
    text="For each base context every listed parameter is changed alone to all (small domains) or boundary / bit-flip / "
         "random (large domains) values and the two to_elements vectors must differ; metadata edits target the chunking and "
         "zero-padding rule. The one colliding class on the pinned tree is a recorded finding with an exact signature.",
    note="Known finding: metadata differing only by trailing zeros inside the last chunk (known_findings.json).",
)
META["C25"] = dict(
    technique="grid-walk monitor (bounds + one-step monotonicity along three axes) + acceptance-decision monitor on dummy proofs",
    text="Security estimates are observed through the public Proof accessors at thousands of grid points and compared with "
         "their neighbours one step up each monotone axis and with the documented caps; the verifier's acceptable-options "
         "decision is compared with the estimate at the threshold and one bit either side, and with set membership.",
    note="No independent re-derivation of the soundness formulas: the property bounds and orders the estimates, it does not fix their values.",
)
META["C08"] = dict(
    technique="completeness monitor over random FRI geometries / fields / hashers / query multisets, before and after proof serialization",
    text="Thousands of (geometry, field, extension, hasher, polynomial degree, query multiset) combinations are proved and "
         "verified through the standalone FRI API on the in-memory proof and on the re-decoded proof; any rejection or "
         "panic inside the realisable-geometry predicate is a violation.",
    note="Sampling. The geometry predicate was cross-checked against the prover on 10k combinations (DESIGN.md C08).",
)
META["C09"] = dict(
    technique="adversarial transcript monitor: honest run + transcript replay + byte-level substitutions, each crafted forgery validated through a check-skipping failpoint",
    text="The monitor replays the public coin to learn every alpha and folded position, then substitutes revealed layer rows "
         "and remainders that are consistent with all algebraic checks at the queried points, so only the commitment "
         "checks can reject them; with the failpoint hook it first shows that each forgery is accepted when exactly that "
         "check is off. Non-low-degree data and understated bounds complete the negative side.",
    note="Decides the property against these specific adversaries, not all adversaries. Hooks: winter_utils::verif failpoints.",
)
META["C01"] = dict(
    technique="completeness monitor over a randomized AIR generator (independent checker confirms each statement) x fields x hashers x options, release / debug-assertion / concurrent builds",
    text="Each case generates an AIR specification, a trace satisfying it by construction and random valid options; an "
         "independent constraint checker written with reference integer arithmetic confirms the trace satisfies the AIR; "
         "the real prover and verifier must then produce and accept a proof, also after a serialization round trip. "
         "Directed cases pin the corners the property names (255 distinct queries, exemptions, wide traces, long sequences).",
    note="Sampling of an unbounded configuration space; the validity predicate of DESIGN.md 4.3 bounds what is generated.",
)
META["C02"] = dict(
    technique="negative-side monitor: checker-classified trace corruptions and public-input edits through the release prover and the verifier",
    text="Every corruption of a satisfying trace is first classified by the independent checker; false statements are "
         "pushed through the real prover (release profile, which does not validate) and must not verify, while edits that "
         "leave the statement true (free cells, fully exempt rows) must still verify, so exemptions are tested from both "
         "sides. The rejecting check is recorded per case.",
    note="Sampling; soundness is decided against the honest pipeline on false statements, not against all provers.",
)
META["C29"] = dict(
    technique="differential monitor: Trace::validate vs an independent constraint checker on satisfying and corrupted traces; table-construction routes compared cell by cell",
    text="validate() is run under panic capture on thousands of traces whose truth value is known from the independent "
         "checker, in base and extension auxiliary fields; a disagreement in either direction, or a panic with any other "
         "message, is a violation. fill / init / fragments are compared for every fragment length.",
    note="Trusted: genair/checker.rs (70 lines) and refarith.rs.",
)
META["C22"] = dict(
    technique="executed-definition monitor: every derived boundary constraint and divisor evaluated at every trace-domain point + order-independence comparison (constraints and proof bytes)",
    text="For generated assertion sets the monitor knows the asserted cells explicitly; it evaluates the real constraint and "
         "divisor objects at all n domain points and requires zeros exactly where the definition says, with the right and "
         "a wrong trace value; coefficient assignment and proof bytes are compared across permutations of the AIR's list.",
    note="Sampling of assertion sets; inside one set every constraint and point is checked.",
)
META["C23"] = dict(
    technique="executed-definition monitor (divisor zero sets and values, degree formulas, column sufficiency over all accepted contexts in a bound, periodic polynomials at every step)",
    text="Divisors are compared with the product definition in reference arithmetic; degree and blowup formulas with the "
         "definition of the product degree; the composition column count with the arithmetic need (degree + 1 coefficients) "
         "for every exemption count a context accepts; periodic polynomials are evaluated at every step.",
    note="Exhaustive inside the stated bounds for (n, e) and degree declarations; periodic columns sampled.",
)
META["C28"] = dict(
    technique="differential monitor against reference polynomial evaluation and a definitional row-commitment + cross-run digest checker over builds/thread counts + TSan",
    text="Matrix LDE outputs are compared cell by cell with reference evaluation of each column polynomial at the domain "
         "point of the row; row- and column-major routes are compared with each other; commitments are recomputed from the "
         "verified rows with the documented partition rule; the same cases run serially and concurrently and an offline "
         "checker requires identical output digests.",
    note="Above 256 rows only 48 rows per matrix are compared with the reference; digests extend the serial result to parallel runs.",
)
META["C06"] = dict(
    technique="offline log checker over proof digests emitted by separate builds (serial / async / concurrent) and thread counts + TSan",
    text="The same instances are proved by separately compiled binaries and at several RAYON_NUM_THREADS values; each run "
         "emits a log of digests; the checker joins the logs by case and requires byte-identical context, commitments and "
         "out-of-domain frame everywhere and byte-identical proofs whenever the nonce is the same. Sizes straddle every "
         "parallelism threshold; TSan watches the concurrent prover for data races.",
    note="A schedule-dependent divergence that needs a rarer interleaving than the repeated runs produce is out of reach.",
)
META["C07"] = dict(
    technique="round-trip monitor over enumerated constructor-accepted boundary values and generated proofs (value equality, exact consumption, re-encoding, verdict)",
    text="Every boundary value the constructors accept is encoded and decoded; the decoded value must be equal, the reader "
         "exhausted and the re-encoding byte-identical; real proofs and each of their components go through the same "
         "oracle and the decoded proof must get the same verdict.",
    note="Known finding: hash rate 256 (known_findings.json). Interiors are sampled.",
)
META["C05"] = dict(
    technique="hostile-input workers with panic / abort / signal / hang capture over structure-aware mutations of honest proofs, release + overflow-check + ASan builds",
    text="Honest proofs are mutated with knowledge of the encoding (every length, count, exponent, tag and option byte of "
         "every component; huge lengths; truncations; splices) and decoded and verified in all three acceptance modes in "
         "isolated worker processes; every component decoder and parser is also driven directly. A panic recorded by the "
         "hook, a process death, an ASan report or a confirmed hang is a violation with the source location as signature.",
    note="Reach behind the Merkle/FRI checks needs transcript-consistent data; see DESIGN.md section 7 for the limit.",
)
META["C03"] = dict(
    technique="adversarial transcript monitor: transcript replay + DEEP/FRI-consistent substitutions into honest proofs, each forgery validated and localized with check-skipping failpoints",
    text="A replayer recomputes every challenge from the proof with public APIs; the surgeon then substitutes opened trace, "
         "constraint, FRI-layer and remainder data chosen so that the DEEP composition and every fold are unchanged at the "
         "queried positions, so only the commitment checks can tell. With the failpoint hook the monitor shows (a) the "
         "forgery is accepted when the targeted checks are off, (b) each remaining single check rejects it with its own "
         "error, (c) the unmodified verifier rejects it.",
    note="Hooks: winter_utils::verif failpoints. A forgery needing more than the listed substitution classes is out of reach.",
)
META["C04"] = dict(
    technique="mutation monitor with a semantic-equality oracle over parsed proof contents, under two acceptance modes",
    text="Honest proofs are mutated at bit, byte, boundary and field level (the latter with consistent length prefixes, as "
         "an attacker would); every mutated string that decodes AND verifies is parsed exactly as the verifier parses it and "
         "compared component by component with the original; the first differing component names the violation. Three "
         "recorded findings (seed does not bind inert partition options / zero-padded metadata) are matched by exact signature.",
    note="Exhaustive bit flips only in the thorough tier; multi-site mutations are limited to the listed field-level edits.",
)
