//! Reference modular arithmetic on canonical integers. Nothing here calls winterfell code.
//! Prime fields: values are u128 in [0, p). Extensions: coefficient arrays reduced by the
//! documented irreducible polynomial, given as the expansion of x^deg in lower powers.

/// (a + b) mod p without overflow, a, b < p
pub fn addm(a: u128, b: u128, p: u128) -> u128 {
    debug_assert!(a < p && b < p);
    if a >= p - b {
        a - (p - b)
    } else {
        a + b
    }
}

pub fn subm(a: u128, b: u128, p: u128) -> u128 {
    debug_assert!(a < p && b < p);
    if a >= b {
        a - b
    } else {
        p - (b - a)
    }
}

pub fn negm(a: u128, p: u128) -> u128 {
    if a == 0 {
        0
    } else {
        p - a
    }
}

/// (a * b) mod p; for p < 2^64 one u128 product and `%`, otherwise double-and-add.
pub fn mulm(a: u128, b: u128, p: u128) -> u128 {
    debug_assert!(a < p && b < p);
    if p >> 64 == 0 {
        (a * b) % p
    } else {
        let mut r = 0u128;
        let mut i = 128;
        // skip leading zeros of b
        if b == 0 {
            return 0;
        }
        i -= b.leading_zeros();
        while i > 0 {
            i -= 1;
            r = addm(r, r, p);
            if (b >> i) & 1 == 1 {
                r = addm(r, a, p);
            }
        }
        r
    }
}

pub fn powm(a: u128, mut e: u128, p: u128) -> u128 {
    let mut base = a;
    let mut r = 1 % p;
    while e > 0 {
        if e & 1 == 1 {
            r = mulm(r, base, p);
        }
        base = mulm(base, base, p);
        e >>= 1;
    }
    r
}

/// inverse with 0 -> 0 (the convention the property states)
pub fn invm(a: u128, p: u128) -> u128 {
    if a == 0 {
        0
    } else {
        powm(a, p - 2, p)
    }
}

/// Deterministic Miller-Rabin for p < 2^64 (first 12 primes as bases), `rounds` pseudo-random
/// bases in addition for larger p.
pub fn is_prime(p: u128, rounds: u32) -> bool {
    if p < 2 {
        return false;
    }
    for q in [2u128, 3, 5, 7, 11, 13, 17, 19, 23, 29, 31, 37] {
        if p == q {
            return true;
        }
        if p % q == 0 {
            return false;
        }
    }
    let mut d = p - 1;
    let mut s = 0;
    while d & 1 == 0 {
        d >>= 1;
        s += 1;
    }
    let mut bases: Vec<u128> = vec![2, 3, 5, 7, 11, 13, 17, 19, 23, 29, 31, 37];
    let mut x = 0x9e3779b97f4a7c15u128;
    for _ in 0..rounds {
        x = x.wrapping_mul(0x2545f4914f6cdd1d_u128 << 13 | 1).wrapping_add(0x1234567);
        bases.push(2 + x % (p - 3));
    }
    'outer: for a in bases {
        let mut y = powm(a % p, d, p);
        if y == 1 || y == p - 1 {
            continue;
        }
        for _ in 1..s {
            y = mulm(y, y, p);
            if y == p - 1 {
                continue 'outer;
            }
        }
        return false;
    }
    true
}

// EXTENSION FIELDS
// ------------------------------------------------------------------------------------------------

#[derive(Clone, Copy, Debug, PartialEq, Eq)]
pub struct FieldSpec {
    pub name: &'static str,
    pub p: u128,
    pub two_adicity: u32,
    pub generator: u128,
    /// prime factorisation of p - 1 (distinct primes)
    pub factors: &'static [u128],
    /// x^2 = quad[0] + quad[1] x   (None when unsupported)
    pub quad: Option<[u128; 2]>,
    /// x^3 = cube[0] + cube[1] x + cube[2] x^2
    pub cube: Option<[u128; 3]>,
}

pub const P62: u128 = 4611624995532046337;
pub const P64: u128 = 18446744069414584321;
pub const P128: u128 = 340282366920938463463374557953744961537;

/// f62: x^2 - x - 1, x^3 + 2x + 2
pub const F62: FieldSpec = FieldSpec {
    name: "f62",
    p: P62,
    two_adicity: 39,
    generator: 3,
    factors: &[2, 13, 17, 37957],
    quad: Some([1, 1]),
    cube: Some([P62 - 2, P62 - 2, 0]),
};
/// f64: x^2 - x + 2, x^3 - x - 1
pub const F64: FieldSpec = FieldSpec {
    name: "f64",
    p: P64,
    two_adicity: 32,
    generator: 7,
    factors: &[2, 3, 5, 17, 257, 65537],
    quad: Some([P64 - 2, 1]),
    cube: Some([1, 1, 0]),
};
/// f128: x^2 - x - 1, no cubic extension
pub const F128: FieldSpec = FieldSpec {
    name: "f128",
    p: P128,
    two_adicity: 40,
    generator: 3,
    factors: &[2, 29, 181, 286619, 11394379, 18053749339],
    quad: Some([1, 1]),
    cube: None,
};

/// Extension element: coefficients c[0] + c[1] x + c[2] x^2, unused ones zero.
pub type Ext = [u128; 3];

#[derive(Clone, Copy, Debug)]
pub struct ExtSpec {
    pub p: u128,
    pub deg: usize,
    /// x^deg = sum red[i] x^i
    pub red: [u128; 3],
}

impl FieldSpec {
    pub fn ext(&self, deg: usize) -> Option<ExtSpec> {
        match deg {
            1 => Some(ExtSpec { p: self.p, deg: 1, red: [0, 0, 0] }),
            2 => self.quad.map(|q| ExtSpec { p: self.p, deg: 2, red: [q[0], q[1], 0] }),
            3 => self.cube.map(|c| ExtSpec { p: self.p, deg: 3, red: c }),
            _ => None,
        }
    }
}

impl ExtSpec {
    pub fn zero(&self) -> Ext {
        [0, 0, 0]
    }
    pub fn one(&self) -> Ext {
        [1, 0, 0]
    }
    pub fn add(&self, a: Ext, b: Ext) -> Ext {
        [addm(a[0], b[0], self.p), addm(a[1], b[1], self.p), addm(a[2], b[2], self.p)]
    }
    pub fn sub(&self, a: Ext, b: Ext) -> Ext {
        [subm(a[0], b[0], self.p), subm(a[1], b[1], self.p), subm(a[2], b[2], self.p)]
    }
    pub fn neg(&self, a: Ext) -> Ext {
        [negm(a[0], self.p), negm(a[1], self.p), negm(a[2], self.p)]
    }
    pub fn mul(&self, a: Ext, b: Ext) -> Ext {
        let p = self.p;
        if self.deg == 1 {
            return [mulm(a[0], b[0], p), 0, 0];
        }
        // schoolbook product, degree <= 2*deg-2
        let mut prod = [0u128; 5];
        for i in 0..self.deg {
            for j in 0..self.deg {
                prod[i + j] = addm(prod[i + j], mulm(a[i], b[j], p), p);
            }
        }
        // reduce from the top: x^k = x^(k-deg) * (red)
        for k in (self.deg..=2 * self.deg - 2).rev() {
            let c = prod[k];
            prod[k] = 0;
            if c != 0 {
                for i in 0..self.deg {
                    prod[k - self.deg + i] = addm(prod[k - self.deg + i], mulm(c, self.red[i], p), p);
                }
            }
        }
        [prod[0], prod[1], prod[2]]
    }
    pub fn mul_base(&self, a: Ext, b: u128) -> Ext {
        self.mul(a, [b, 0, 0])
    }
    pub fn pow(&self, a: Ext, mut e: u128) -> Ext {
        let mut base = a;
        let mut r = self.one();
        while e > 0 {
            if e & 1 == 1 {
                r = self.mul(r, base);
            }
            base = self.mul(base, base);
            e >>= 1;
        }
        r
    }
    /// a^(p): the Frobenius map, by plain square-and-multiply
    pub fn frobenius(&self, a: Ext) -> Ext {
        self.pow(a, self.p)
    }
    /// inverse (0 -> 0) by solving the linear system a * y = 1 with Gaussian elimination
    pub fn inv(&self, a: Ext) -> Ext {
        let p = self.p;
        let n = self.deg;
        if a == [0, 0, 0] {
            return [0, 0, 0];
        }
        // column j of the matrix = a * x^j
        let mut m = [[0u128; 4]; 3];
        for j in 0..n {
            let mut xj = [0u128; 3];
            xj[j] = 1;
            let col = self.mul(a, xj);
            for i in 0..n {
                m[i][j] = col[i];
            }
        }
        m[0][n] = 1; // rhs = 1 (stored in column n)
        for i in 1..n {
            m[i][n] = 0;
        }
        // elimination
        for c in 0..n {
            let mut piv = c;
            while piv < n && m[piv][c] == 0 {
                piv += 1;
            }
            assert!(piv < n, "singular multiplication matrix: modulus polynomial reducible?");
            m.swap(c, piv);
            let iv = invm(m[c][c], p);
            for j in 0..=n {
                m[c][j] = mulm(m[c][j], iv, p);
            }
            for r in 0..n {
                if r != c && m[r][c] != 0 {
                    let f = m[r][c];
                    for j in 0..=n {
                        let t = mulm(f, m[c][j], p);
                        m[r][j] = subm(m[r][j], t, p);
                    }
                }
            }
        }
        let mut y = [0u128; 3];
        for i in 0..n {
            y[i] = m[i][n];
        }
        y
    }
}

// POLYNOMIALS over an ExtSpec field (coefficients low to high)
// ------------------------------------------------------------------------------------------------

pub fn poly_eval(f: &ExtSpec, coeffs: &[Ext], x: Ext) -> Ext {
    let mut acc = f.zero();
    for c in coeffs.iter().rev() {
        acc = f.add(f.mul(acc, x), *c);
    }
    acc
}

pub fn poly_degree(coeffs: &[Ext]) -> usize {
    for i in (0..coeffs.len()).rev() {
        if coeffs[i] != [0, 0, 0] {
            return i;
        }
    }
    0
}

pub fn poly_mul(f: &ExtSpec, a: &[Ext], b: &[Ext]) -> Vec<Ext> {
    if a.is_empty() || b.is_empty() {
        return vec![];
    }
    let mut r = vec![f.zero(); a.len() + b.len() - 1];
    for (i, x) in a.iter().enumerate() {
        for (j, y) in b.iter().enumerate() {
            r[i + j] = f.add(r[i + j], f.mul(*x, *y));
        }
    }
    r
}

/// quotient and remainder of a / b (b non-zero polynomial); outputs trimmed (quotient may be [0])
pub fn poly_divrem(f: &ExtSpec, a: &[Ext], b: &[Ext]) -> (Vec<Ext>, Vec<Ext>) {
    let db = poly_degree(b);
    assert!(b[db] != [0, 0, 0], "division by the zero polynomial");
    let mut rem: Vec<Ext> = a.to_vec();
    let da = poly_degree(a);
    if da < db || (da == 0 && a.iter().all(|c| *c == [0, 0, 0])) {
        return (vec![f.zero()], rem);
    }
    let mut q = vec![f.zero(); da - db + 1];
    let lead_inv = f.inv(b[db]);
    for k in (0..=da - db).rev() {
        let c = f.mul(rem[k + db], lead_inv);
        q[k] = c;
        if c != [0, 0, 0] {
            for i in 0..=db {
                rem[k + i] = f.sub(rem[k + i], f.mul(c, b[i]));
            }
        }
    }
    (q, rem)
}

/// Lagrange interpolation through (xs[i], ys[i]); O(n^2); xs distinct.
pub fn poly_interpolate(f: &ExtSpec, xs: &[Ext], ys: &[Ext]) -> Vec<Ext> {
    let n = xs.len();
    let mut result = vec![f.zero(); n];
    // numerator polynomial prod (x - xs[i])
    let mut full = vec![f.one()];
    for x in xs {
        full = poly_mul(f, &full, &[f.neg(*x), f.one()]);
    }
    for i in 0..n {
        // basis numerator = full / (x - xs[i]) by synthetic division
        let mut q = vec![f.zero(); n];
        let mut carry = f.zero();
        for k in (0..n).rev() {
            carry = f.add(full[k + 1], f.mul(carry, xs[i]));
            q[k] = carry;
        }
        let denom = poly_eval(f, &q, xs[i]);
        let scale = f.mul(ys[i], f.inv(denom));
        for k in 0..n {
            result[k] = f.add(result[k], f.mul(q[k], scale));
        }
    }
    result
}

/// self-test against exact identities; panics on failure (a harness error, not a verdict)
pub fn self_test() {
    for fs in [F62, F64, F128] {
        assert!(is_prime(fs.p, 40), "{} modulus not prime", fs.name);
        // factorisation check
        let mut m = fs.p - 1;
        for q in fs.factors {
            assert!(is_prime(*q, 10));
            assert!(m % q == 0);
            while m % q == 0 {
                m /= q;
            }
        }
        assert_eq!(m, 1, "{} factorisation incomplete", fs.name);
        assert_eq!(((fs.p - 1) >> fs.two_adicity) & 1, 1);
        assert_eq!((fs.p - 1) & ((1u128 << fs.two_adicity) - 1), 0);
        // mulm against an independent 256-bit schoolbook on a few values
        let vals = [1u128, 2, fs.p - 1, fs.p - 2, fs.p / 2, fs.p / 3 + 7, 0xdeadbeefcafebabe % fs.p];
        for a in vals {
            for b in vals {
                assert_eq!(mulm(a, b, fs.p), mul_wide_mod(a, b, fs.p), "{} mulm {} {}", fs.name, a, b);
            }
            if a != 0 {
                assert_eq!(mulm(a, invm(a, fs.p), fs.p), 1);
            }
        }
        for deg in [2usize, 3] {
            if let Some(e) = fs.ext(deg) {
                let a: Ext = [5, 7 % fs.p, if deg == 3 { 11 } else { 0 }];
                assert_eq!(e.mul(a, e.inv(a)), e.one());
                // Frobenius has order deg
                let mut x = a;
                for _ in 0..deg {
                    x = e.frobenius(x);
                }
                assert_eq!(x, a);
            }
        }
    }
}

/// independent (slow, bit-serial on a 256-bit accumulator) modular product used by self_test
fn mul_wide_mod(a: u128, b: u128, p: u128) -> u128 {
    // 256-bit product as (hi, lo) by 64-bit limbs
    let (a0, a1) = (a as u64 as u128, a >> 64);
    let (b0, b1) = (b as u64 as u128, b >> 64);
    let p00 = a0 * b0;
    let p01 = a0 * b1;
    let p10 = a1 * b0;
    let p11 = a1 * b1;
    let mid = (p00 >> 64) + (p01 as u64 as u128) + (p10 as u64 as u128);
    let lo = (p00 as u64 as u128) | (mid << 64);
    let hi = p11 + (p01 >> 64) + (p10 >> 64) + (mid >> 64);
    // reduce bit by bit: r = (r*2 + bit) mod p over 256 bits, r < p < 2^128
    let mut r = 0u128;
    for i in (0..256).rev() {
        let bit = if i >= 128 { (hi >> (i - 128)) & 1 } else { (lo >> i) & 1 };
        r = addm(r, r, p);
        if bit == 1 {
            r = addm(r, 1 % p, p);
        }
    }
    r
}
