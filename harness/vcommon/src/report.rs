//! Stage report: what a monitor observed. Written as one JSON object; the driver merges stages,
//! matches violation signatures against known_findings.json and writes the evidence file.
use std::collections::{BTreeMap, HashSet};

use serde_json::{json, Map, Value};

pub struct Report {
    pub property: String,
    pub stage: String,
    pub evaluations: u64,
    distinct: HashSet<u64>,
    pub rule: String,
    pub samples: Vec<Value>,
    pub max_samples: usize,
    counters: BTreeMap<String, u64>,
    pub extra: Map<String, Value>,
    /// signature -> (count, first examples)
    violations: BTreeMap<String, (u64, Vec<Value>)>,
    inconclusive: BTreeMap<String, (u64, Vec<Value>)>,
    start: std::time::Instant,
}

impl Report {
    pub fn new(property: &str, stage: &str, rule: &str) -> Self {
        Report {
            property: property.into(),
            stage: stage.into(),
            evaluations: 0,
            distinct: HashSet::new(),
            rule: rule.into(),
            samples: vec![],
            max_samples: 4,
            counters: BTreeMap::new(),
            extra: Map::new(),
            violations: BTreeMap::new(),
            inconclusive: BTreeMap::new(),
            start: std::time::Instant::now(),
        }
    }

    /// one executed case; `key` identifies it for distinct counting when `nontrivial`
    pub fn case(&mut self, key: &[u8], nontrivial: bool) {
        self.evaluations += 1;
        if nontrivial {
            self.distinct.insert(crate::fnv(key));
        }
    }

    pub fn evals(&mut self, n: u64) {
        self.evaluations += n;
    }

    pub fn distinct_key(&mut self, key: &[u8]) {
        self.distinct.insert(crate::fnv(key));
    }

    pub fn sample(&mut self, v: Value) {
        if self.samples.len() < self.max_samples {
            self.samples.push(v);
        }
    }

    pub fn count(&mut self, k: &str) {
        *self.counters.entry(k.to_string()).or_insert(0) += 1;
    }

    pub fn count_n(&mut self, k: &str, n: u64) {
        *self.counters.entry(k.to_string()).or_insert(0) += n;
    }

    pub fn counter(&self, k: &str) -> u64 {
        self.counters.get(k).copied().unwrap_or(0)
    }

    pub fn violation(&mut self, sig: &str, detail: Value) {
        let e = self.violations.entry(sig.to_string()).or_insert((0, vec![]));
        e.0 += 1;
        if e.1.len() < 3 {
            e.1.push(detail);
        }
    }

    pub fn inconclusive(&mut self, sig: &str, detail: Value) {
        let e = self.inconclusive.entry(sig.to_string()).or_insert((0, vec![]));
        e.0 += 1;
        if e.1.len() < 3 {
            e.1.push(detail);
        }
    }

    pub fn num_violation_total(&self) -> u64 {
        self.violations.values().map(|v| v.0).sum()
    }

    pub fn num_violation_sigs(&self) -> usize {
        self.violations.len()
    }

    pub fn elapsed(&self) -> f64 {
        self.start.elapsed().as_secs_f64()
    }

    pub fn to_json(&self) -> Value {
        let viol: Vec<Value> = self
            .violations
            .iter()
            .map(|(s, (n, ex))| json!({"sig": s, "count": n, "examples": ex}))
            .collect();
        let inc: Vec<Value> = self
            .inconclusive
            .iter()
            .map(|(s, (n, ex))| json!({"sig": s, "count": n, "examples": ex}))
            .collect();
        json!({
            "property": self.property,
            "stage": self.stage,
            "evaluations": self.evaluations,
            "distinct_nontrivial": self.distinct.len(),
            "distinct_hashes": if self.distinct.len() <= 20_000 { self.distinct.iter().map(|h| format!("{h:x}")).collect::<Vec<_>>() } else { vec![] },
            "rule": self.rule,
            "samples": self.samples,
            "counters": self.counters,
            "extra": self.extra,
            "violations": viol,
            "inconclusive": inc,
            "wall_s": self.elapsed(),
        })
    }

    pub fn finish(&self, out: &str) {
        let s = serde_json::to_string(&self.to_json()).unwrap();
        if out == "/dev/stdout" || out == "-" {
            println!("{s}");
        } else {
            let tmp = format!("{out}.tmp");
            std::fs::write(&tmp, s).expect("write report");
            std::fs::rename(&tmp, out).expect("rename report");
        }
    }
}
