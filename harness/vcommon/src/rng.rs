//! xoshiro256** seeded through splitmix64. All random choices in the harness come from here so
//! that (seed, stage, case index) replays a case.

#[derive(Clone, Debug)]
pub struct Rng {
    s: [u64; 4],
}

fn splitmix(x: &mut u64) -> u64 {
    *x = x.wrapping_add(0x9e3779b97f4a7c15);
    let mut z = *x;
    z = (z ^ (z >> 30)).wrapping_mul(0xbf58476d1ce4e5b9);
    z = (z ^ (z >> 27)).wrapping_mul(0x94d049bb133111eb);
    z ^ (z >> 31)
}

impl Rng {
    pub fn new(seed: u64) -> Self {
        let mut x = seed;
        let s = [splitmix(&mut x), splitmix(&mut x), splitmix(&mut x), splitmix(&mut x)];
        Rng { s }
    }

    /// Independent stream for (seed, stream id, case index).
    pub fn for_case(seed: u64, stream: u64, case: u64) -> Self {
        let mut x = seed ^ stream.wrapping_mul(0xa0761d6478bd642f);
        let a = splitmix(&mut x);
        let mut y = a ^ case.wrapping_mul(0xe7037ed1a0b428db);
        let s = [splitmix(&mut y), splitmix(&mut y), splitmix(&mut y), splitmix(&mut y)];
        Rng { s }
    }

    pub fn u64(&mut self) -> u64 {
        let r = self.s[1].wrapping_mul(5).rotate_left(7).wrapping_mul(9);
        let t = self.s[1] << 17;
        self.s[2] ^= self.s[0];
        self.s[3] ^= self.s[1];
        self.s[1] ^= self.s[2];
        self.s[0] ^= self.s[3];
        self.s[2] ^= t;
        self.s[3] = self.s[3].rotate_left(45);
        r
    }

    pub fn u128(&mut self) -> u128 {
        ((self.u64() as u128) << 64) | self.u64() as u128
    }

    pub fn u32(&mut self) -> u32 {
        (self.u64() >> 32) as u32
    }

    pub fn u8(&mut self) -> u8 {
        (self.u64() >> 56) as u8
    }

    /// uniform in [0, n) (n > 0); tiny modulo bias is irrelevant here
    pub fn below(&mut self, n: u64) -> u64 {
        self.u64() % n
    }

    pub fn below128(&mut self, n: u128) -> u128 {
        self.u128() % n
    }

    pub fn usize(&mut self, n: usize) -> usize {
        (self.u64() % n as u64) as usize
    }

    /// uniform in [lo, hi] inclusive
    pub fn range(&mut self, lo: usize, hi: usize) -> usize {
        lo + self.usize(hi - lo + 1)
    }

    pub fn bool(&mut self) -> bool {
        self.u64() & 1 == 1
    }

    /// true with probability num/den
    pub fn chance(&mut self, num: u64, den: u64) -> bool {
        self.below(den) < num
    }

    pub fn pick<'a, T>(&mut self, xs: &'a [T]) -> &'a T {
        &xs[self.usize(xs.len())]
    }

    pub fn bytes(&mut self, n: usize) -> Vec<u8> {
        let mut v = Vec::with_capacity(n);
        while v.len() < n {
            let x = self.u64().to_le_bytes();
            let k = (n - v.len()).min(8);
            v.extend_from_slice(&x[..k]);
        }
        v
    }

    pub fn shuffle<T>(&mut self, xs: &mut [T]) {
        for i in (1..xs.len()).rev() {
            let j = self.usize(i + 1);
            xs.swap(i, j);
        }
    }
}
