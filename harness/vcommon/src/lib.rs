//! Shared pieces of the winterfell runtime-monitoring harness: deterministic PRNG, report
//! writer (one JSON file per monitor stage, consumed by the `check` driver), panic recorder,
//! and the reference arithmetic the differential oracles use.

pub mod args;
pub mod panicrec;
pub mod refarith;
pub mod report;
pub mod rng;

pub use args::Args;
pub use panicrec::{guard, install_panic_hook, PanicInfo};
pub use report::Report;
pub use rng::Rng;
pub use serde_json::{json, Value};

pub fn hex(bytes: &[u8]) -> String {
    let mut s = String::with_capacity(bytes.len() * 2);
    for b in bytes {
        s.push_str(&format!("{b:02x}"));
    }
    s
}

pub fn unhex(s: &str) -> Vec<u8> {
    (0..s.len() / 2).map(|i| u8::from_str_radix(&s[2 * i..2 * i + 2], 16).unwrap()).collect()
}

/// FNV-1a 64-bit; used only to count distinct cases.
pub fn fnv(bytes: &[u8]) -> u64 {
    let mut h = 0xcbf29ce484222325u64;
    for b in bytes {
        h ^= *b as u64;
        h = h.wrapping_mul(0x100000001b3);
    }
    h
}

/// Worker protocol of the driver's sharded stages: case range, progress file naming the case in
/// flight (so that a process death can be attributed to it), cases to skip (those that killed a
/// previous worker), periodic partial report stamped with the first case it does not cover.
pub struct Worker {
    pub from: u64,
    pub to: u64,
    progress: Option<String>,
    skip: std::collections::HashSet<u64>,
    out: String,
    last_flush: std::time::Instant,
}

impl Worker {
    pub fn new(args: &Args, default_n: u64) -> Self {
        let skip = args
            .get("skip")
            .map(|s| s.split(',').filter(|x| !x.is_empty()).map(|x| x.parse().unwrap()).collect())
            .unwrap_or_default();
        Worker {
            from: args.u64("from", 0),
            to: args.u64("to", default_n),
            progress: args.get("progress").map(|s| s.to_string()),
            skip,
            out: args.out(),
            last_flush: std::time::Instant::now(),
        }
    }
    /// Call before each case; returns false if the case must be skipped. `rep` holds everything
    /// observed before this case.
    pub fn start(&mut self, case: u64, rep: &mut Report) -> bool {
        if self.skip.contains(&case) {
            return false;
        }
        if let Some(p) = &self.progress {
            if self.last_flush.elapsed().as_millis() > 1000 {
                rep.extra.insert("covered_to".into(), json!(case));
                rep.finish(&format!("{}.partial", self.out));
                rep.extra.remove("covered_to");
                self.last_flush = std::time::Instant::now();
            }
            let _ = std::fs::write(p, format!("{case}\n"));
        }
        true
    }
}
