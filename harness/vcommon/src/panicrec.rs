//! Panic recorder: a hook stores {file, line, message} of the last panic of the current thread;
//! `guard` runs a closure under catch_unwind and returns that record on panic.
use std::cell::RefCell;
use std::panic::{self, AssertUnwindSafe};

#[derive(Debug, Clone)]
pub struct PanicInfo {
    pub file: String,
    pub line: u32,
    pub message: String,
}

impl PanicInfo {
    /// message with every run of digits replaced by '#', so that signatures are stable
    pub fn masked(&self) -> String {
        let mut out = String::new();
        let mut in_num = false;
        for c in self.message.chars() {
            if c.is_ascii_digit() {
                if !in_num {
                    out.push('#');
                    in_num = true;
                }
            } else {
                in_num = false;
                out.push(c);
            }
        }
        if out.len() > 160 {
            let mut cut = 160;
            while !out.is_char_boundary(cut) {
                cut -= 1;
            }
            out.truncate(cut);
        }
        out
    }
    /// file path relative to the repository (stable across checkouts)
    pub fn rel_file(&self) -> String {
        match self.file.find("/repo/") {
            Some(i) => self.file[i + 6..].to_string(),
            None => match self.file.rfind("/src/") {
                Some(_) => {
                    // keep the last three components
                    let parts: Vec<&str> = self.file.split('/').collect();
                    parts[parts.len().saturating_sub(4)..].join("/")
                },
                None => self.file.clone(),
            },
        }
    }
    pub fn sig(&self) -> String {
        format!("panic|{}|{}", self.rel_file(), self.masked())
    }
}

thread_local! {
    static LAST: RefCell<Option<PanicInfo>> = const { RefCell::new(None) };
    static DEPTH: std::cell::Cell<u32> = const { std::cell::Cell::new(0) };
}

pub fn install_panic_hook() {
    panic::set_hook(Box::new(|info| {
        let (file, line) = match info.location() {
            Some(l) => (l.file().to_string(), l.line()),
            None => ("?".to_string(), 0),
        };
        let message = if let Some(s) = info.payload().downcast_ref::<&str>() {
            s.to_string()
        } else if let Some(s) = info.payload().downcast_ref::<String>() {
            s.clone()
        } else {
            "<non-string payload>".to_string()
        };
        // outside of `guard` nobody will look at the record: print like the default hook, in the
        // format the driver parses
        if DEPTH.with(|d| d.get()) == 0 {
            eprintln!("thread panicked at {file}:{line}:0:\n{message}");
        }
        LAST.with(|l| *l.borrow_mut() = Some(PanicInfo { file, line, message }));
    }));
}

/// Runs `f`; Ok(value) or Err(panic record). Requires `install_panic_hook`.
pub fn guard<T>(f: impl FnOnce() -> T) -> Result<T, PanicInfo> {
    LAST.with(|l| *l.borrow_mut() = None);
    DEPTH.with(|d| d.set(d.get() + 1));
    let r = panic::catch_unwind(AssertUnwindSafe(f));
    DEPTH.with(|d| d.set(d.get() - 1));
    match r {
        Ok(v) => Ok(v),
        Err(_) => Err(LAST.with(|l| l.borrow_mut().take()).unwrap_or(PanicInfo {
            file: "?".into(),
            line: 0,
            message: "panic on another thread / no record".into(),
        })),
    }
}
