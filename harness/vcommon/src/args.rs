//! `mon_x <stage> [--key value]...` ; every monitor takes --seed --tier --out, hostile-input
//! monitors also --from --to --progress (worker protocol of the driver).
use std::collections::HashMap;

#[derive(Debug, Clone)]
pub struct Args {
    pub stage: String,
    pub kv: HashMap<String, String>,
}

impl Args {
    pub fn parse() -> Args {
        let mut it = std::env::args().skip(1);
        let stage = it.next().unwrap_or_else(|| {
            eprintln!("usage: <stage> [--key value]...");
            std::process::exit(2)
        });
        let mut kv = HashMap::new();
        while let Some(k) = it.next() {
            let k = k.trim_start_matches("--").to_string();
            let v = it.next().unwrap_or_default();
            kv.insert(k, v);
        }
        Args { stage, kv }
    }
    pub fn get(&self, k: &str) -> Option<&str> {
        self.kv.get(k).map(|s| s.as_str())
    }
    pub fn u64(&self, k: &str, default: u64) -> u64 {
        self.get(k).map(|s| s.parse().expect("integer argument")).unwrap_or(default)
    }
    pub fn seed(&self) -> u64 {
        self.u64("seed", 1)
    }
    pub fn thorough(&self) -> bool {
        self.get("tier") == Some("thorough")
    }
    /// budget selector: quick value / thorough value, overridable with --n
    pub fn budget(&self, quick: u64, thorough: u64) -> u64 {
        match self.get("n") {
            Some(s) => s.parse().expect("--n integer"),
            None => if self.thorough() { thorough } else { quick },
        }
    }
    pub fn out(&self) -> String {
        self.get("out").unwrap_or("/dev/stdout").to_string()
    }
}
