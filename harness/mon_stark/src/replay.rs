//! Transcript replayer: recomputes, from a proof and the public inputs and with public APIs only,
//! every challenge the verifier will draw (auxiliary randomness, constraint coefficients, z, DEEP
//! coefficients, FRI alphas, query positions), in the order perform_verification uses. Used by the
//! adaptive-substitution monitors; an honest proof must survive an identity re-encoding
//! (self-test) before any attack built from a replay is judged.
use genair::{GenAir, GenPub, SpecRef};
use vwf::BaseFut;
use winter_air::proof::{merge_ood_evaluations, Proof, Queries, Table};
use winter_air::{Air, AuxRandElements, DeepCompositionCoefficients};
use winter_crypto::{BatchMerkleProof, DefaultRandomCoin, ElementHasher, Hasher, MerkleTree, RandomCoin};
use winter_math::{FieldElement, ToElements};

#[allow(dead_code)]
pub struct Transcript<E: FieldElement, H: Hasher>
where
    E::BaseField: BaseFut,
{
    pub air: GenAir<E::BaseField>,
    pub aux_rands: Option<AuxRandElements<E>>,
    pub z: E,
    pub deep: DeepCompositionCoefficients<E>,
    pub fri_alphas: Vec<E>,
    /// sorted, de-duplicated query positions
    pub positions: Vec<usize>,
    pub trace_commitments: Vec<H::Digest>,
    pub constraint_commitment: H::Digest,
    pub fri_commitments: Vec<H::Digest>,
}

pub fn replay<B, E, H>(proof: &Proof, spec: &SpecRef) -> Result<Transcript<E, H>, String>
where
    B: BaseFut,
    E: FieldElement<BaseField = B>,
    H: ElementHasher<BaseField = B>,
{
    let pub_inputs = GenPub::<B>::new(spec.clone());
    let mut seed: Vec<B> = proof.context.to_elements();
    seed.append(&mut pub_inputs.to_elements());
    let air = GenAir::<B>::new(proof.trace_info().clone(), pub_inputs, proof.options().clone());
    if air.is_mismatch() {
        return Err("proof context does not describe the specification".into());
    }
    let mut coin = DefaultRandomCoin::<H>::new(&seed);
    let fri_options = air.options().to_fri_options();
    let lde = air.lde_domain_size();
    let (trace_commitments, constraint_commitment, fri_commitments) = proof
        .commitments
        .clone()
        .parse::<H>(air.trace_info().num_segments(), fri_options.num_fri_layers(lde))
        .map_err(|e| format!("commitments: {e}"))?;
    coin.reseed(trace_commitments[0]);
    let aux_rands = if air.trace_info().is_multi_segment() {
        let r = air.get_aux_rand_elements::<E, _>(&mut coin).map_err(|e| format!("{e:?}"))?;
        coin.reseed(trace_commitments[1]);
        Some(r)
    } else {
        None
    };
    let _cc = air.get_constraint_composition_coefficients::<E, _>(&mut coin).map_err(|e| format!("{e:?}"))?;
    coin.reseed(constraint_commitment);
    let z = coin.draw::<E>().map_err(|e| format!("{e:?}"))?;
    let (ood_trace, ood_quot) = proof
        .ood_frame
        .clone()
        .parse::<E>(air.trace_info().main_trace_width(), air.trace_info().aux_segment_width(), air.context().num_constraint_composition_columns())
        .map_err(|e| format!("ood: {e}"))?;
    let ood_evals = merge_ood_evaluations(&ood_trace, &ood_quot);
    coin.reseed(H::hash_elements(&ood_evals));
    let deep = air.get_deep_composition_coefficients::<E, _>(&mut coin).map_err(|e| format!("{e:?}"))?;
    let mut fri_alphas = vec![];
    for c in &fri_commitments {
        coin.reseed(*c);
        fri_alphas.push(coin.draw::<E>().map_err(|e| format!("{e:?}"))?);
    }
    if coin.check_leading_zeros(proof.pow_nonce) < air.options().grinding_factor() {
        return Err("proof-of-work check fails in the replay".into());
    }
    let mut positions = coin.draw_integers(air.options().num_queries(), lde, proof.pow_nonce).map_err(|e| format!("{e:?}"))?;
    positions.sort_unstable();
    positions.dedup();
    if positions.len() != proof.num_unique_queries as usize {
        return Err(format!("replayed {} unique positions, proof says {}", positions.len(), proof.num_unique_queries));
    }
    Ok(Transcript { air, aux_rands, z, deep, fri_alphas, positions, trace_commitments, constraint_commitment, fri_commitments })
}

/// opened rows of one Queries object
pub fn open_queries<E, H>(q: &Queries, lde: usize, num_queries: usize, width: usize) -> Result<(BatchMerkleProof<H>, Vec<Vec<E>>), String>
where
    E: FieldElement,
    H: ElementHasher<BaseField = E::BaseField>,
{
    let (mp, table): (BatchMerkleProof<H>, Table<E>) = q.clone().parse::<E, H, MerkleTree<H>>(lde, num_queries, width).map_err(|e| format!("queries: {e}"))?;
    Ok((mp, table.rows().map(|r| r.to_vec()).collect()))
}

pub fn rebuild_queries<E, H>(mp: BatchMerkleProof<H>, rows: Vec<Vec<E>>) -> Queries
where
    E: FieldElement,
    H: ElementHasher<BaseField = E::BaseField>,
{
    Queries::new::<H, E, MerkleTree<H>>(mp, rows)
}

/// OOD patch: given a proof whose CONTEXT was edited (a field that is bound into the seed), recompute
/// the seed-dependent challenges up to z and overwrite the first claimed constraint-composition
/// value so that the out-of-domain consistency equation holds under the new seed. Out-of-domain
/// values are unconstrained claims until the DEEP/FRI phase, so a real attacker can do exactly this;
/// it carries the edited context past the OOD check into FriVerifier::new, the proof-of-work check,
/// draw_integers and the opening checks. None = the edited proof no longer parses (nothing to patch).
pub fn ood_patch<B, E, H>(proof: &Proof, spec: &SpecRef) -> Option<Proof>
where
    B: BaseFut,
    E: FieldElement<BaseField = B>,
    H: ElementHasher<BaseField = B>,
{
    use winter_air::proof::{OodFrame, QuotientOodFrame, TraceOodFrame};
    use winter_air::EvaluationFrame;
    let pub_inputs = GenPub::<B>::new(spec.clone());
    let mut seed: Vec<B> = proof.context.to_elements();
    seed.append(&mut pub_inputs.to_elements());
    let air = GenAir::<B>::new(proof.trace_info().clone(), pub_inputs, proof.options().clone());
    let mut coin = DefaultRandomCoin::<H>::new(&seed);
    let fri_options = air.options().to_fri_options();
    let lde = air.lde_domain_size();
    let (tc, cc, _fc) = proof.commitments.clone().parse::<H>(air.trace_info().num_segments(), fri_options.num_fri_layers(lde)).ok()?;
    coin.reseed(tc[0]);
    let aux_rands = if air.trace_info().is_multi_segment() {
        let r = air.get_aux_rand_elements::<E, _>(&mut coin).ok()?;
        coin.reseed(tc[1]);
        Some(r)
    } else {
        None
    };
    let coeffs = air.get_constraint_composition_coefficients::<E, _>(&mut coin).ok()?;
    coin.reseed(cc);
    let z = coin.draw::<E>().ok()?;
    let mw = air.trace_info().main_trace_width();
    let (ot, oq) = proof.ood_frame.clone().parse::<E>(mw, air.trace_info().aux_segment_width(), air.context().num_constraint_composition_columns()).ok()?;
    let main_frame = ot.main_frame();
    let aux_frame = ot.aux_frame();
    // mirror of the verifier's constraint evaluation at z (public Air methods only)
    let t_constraints = air.get_transition_constraints(&coeffs.transition);
    let periodic: Vec<E> = air
        .get_periodic_column_polys()
        .iter()
        .map(|poly| {
            let num_cycles = air.trace_length() / poly.len();
            winter_math::polynom::eval(poly, z.exp_vartime((num_cycles as u32).into()))
        })
        .collect();
    let mut t1 = vec![E::ZERO; t_constraints.num_main_constraints()];
    air.evaluate_transition(&main_frame, &periodic, &mut t1);
    let mut t2 = vec![E::ZERO; t_constraints.num_aux_constraints()];
    if let Some(af) = &aux_frame {
        air.evaluate_aux_transition(&main_frame, af, &periodic, aux_rands.as_ref()?, &mut t2);
    }
    let mut rhs = t_constraints.combine_evaluations::<E>(&t1, &t2, z);
    let b = air.get_boundary_constraints(aux_rands.as_ref(), &coeffs.boundary);
    for g in b.main_constraints() {
        rhs += g.evaluate_at(main_frame.current(), z);
    }
    if let Some(af) = &aux_frame {
        for g in b.aux_constraints() {
            rhs += g.evaluate_at(af.current(), z);
        }
    }
    let _: Option<EvaluationFrame<E>> = None;
    // solve for the first composition column's claimed value
    let mut cur = oq.current_row().to_vec();
    let n = air.trace_length();
    let mut rest = E::ZERO;
    for (i, v) in cur.iter().enumerate().skip(1) {
        rest += z.exp_vartime(((i * n) as u32).into()) * *v;
    }
    cur[0] = rhs - rest;
    let mut frame = OodFrame::default();
    frame.set_trace_states(&TraceOodFrame::new(ot.current_row().to_vec(), ot.next_row().to_vec(), mw));
    frame.set_quotient_states(&QuotientOodFrame::new(cur, oq.next_row().to_vec()));
    let mut p = proof.clone();
    p.ood_frame = frame;
    // the attacker also re-grinds the proof-of-work nonce for the new transcript
    let (ot2, oq2) = p.ood_frame.clone().parse::<E>(mw, air.trace_info().aux_segment_width(), air.context().num_constraint_composition_columns()).ok()?;
    coin.reseed(H::hash_elements(&merge_ood_evaluations(&ot2, &oq2)));
    let _deep = air.get_deep_composition_coefficients::<E, _>(&mut coin).ok()?;
    for c in &_fc {
        coin.reseed(*c);
        let _alpha = coin.draw::<E>().ok()?;
    }
    let g = air.options().grinding_factor();
    if g <= 16 {
        if let Some(nonce) = (1..1u64 << 22).find(|n| coin.check_leading_zeros(*n) >= g) {
            p.pow_nonce = nonce;
        }
    }
    Some(p)
}
