//! Transcript replayer: recomputes, from a proof and the public inputs and with public APIs only,
//! every challenge the verifier will draw (auxiliary randomness, constraint coefficients, z, DEEP
//! coefficients, FRI alphas, query positions), in the order perform_verification uses. Used by the
//! adaptive-substitution monitors; an honest proof must survive an identity re-encoding
//! (self-test) before any attack built from a replay is judged.
use genair::{GenAir, GenPub, SpecRef};
use vwf::BaseFut;
use winter_air::proof::{merge_ood_evaluations, Proof, Queries, Table};
use winter_air::{Air, AuxRandElements, DeepCompositionCoefficients};
use winter_crypto::{BatchMerkleProof, DefaultRandomCoin, ElementHasher, Hasher, MerkleTree, RandomCoin};
use winter_math::{FieldElement, ToElements};

#[allow(dead_code)]
pub struct Transcript<E: FieldElement, H: Hasher>
where
    E::BaseField: BaseFut,
{
    pub air: GenAir<E::BaseField>,
    pub aux_rands: Option<AuxRandElements<E>>,
    pub z: E,
    pub deep: DeepCompositionCoefficients<E>,
    pub fri_alphas: Vec<E>,
    /// sorted, de-duplicated query positions
    pub positions: Vec<usize>,
    pub trace_commitments: Vec<H::Digest>,
    pub constraint_commitment: H::Digest,
    pub fri_commitments: Vec<H::Digest>,
}

pub fn replay<B, E, H>(proof: &Proof, spec: &SpecRef) -> Result<Transcript<E, H>, String>
where
    B: BaseFut,
    E: FieldElement<BaseField = B>,
    H: ElementHasher<BaseField = B>,
{
    let pub_inputs = GenPub::<B>::new(spec.clone());
    let mut seed: Vec<B> = proof.context.to_elements();
    seed.append(&mut pub_inputs.to_elements());
    let air = GenAir::<B>::new(proof.trace_info().clone(), pub_inputs, proof.options().clone());
    if air.is_mismatch() {
        return Err("proof context does not describe the specification".into());
    }
    let mut coin = DefaultRandomCoin::<H>::new(&seed);
    let fri_options = air.options().to_fri_options();
    let lde = air.lde_domain_size();
    let (trace_commitments, constraint_commitment, fri_commitments) = proof
        .commitments
        .clone()
        .parse::<H>(air.trace_info().num_segments(), fri_options.num_fri_layers(lde))
        .map_err(|e| format!("commitments: {e}"))?;
    coin.reseed(trace_commitments[0]);
    let aux_rands = if air.trace_info().is_multi_segment() {
        let r = air.get_aux_rand_elements::<E, _>(&mut coin).map_err(|e| format!("{e:?}"))?;
        coin.reseed(trace_commitments[1]);
        Some(r)
    } else {
        None
    };
    let _cc = air.get_constraint_composition_coefficients::<E, _>(&mut coin).map_err(|e| format!("{e:?}"))?;
    coin.reseed(constraint_commitment);
    let z = coin.draw::<E>().map_err(|e| format!("{e:?}"))?;
    let (ood_trace, ood_quot) = proof
        .ood_frame
        .clone()
        .parse::<E>(air.trace_info().main_trace_width(), air.trace_info().aux_segment_width(), air.context().num_constraint_composition_columns())
        .map_err(|e| format!("ood: {e}"))?;
    let ood_evals = merge_ood_evaluations(&ood_trace, &ood_quot);
    coin.reseed(H::hash_elements(&ood_evals));
    let deep = air.get_deep_composition_coefficients::<E, _>(&mut coin).map_err(|e| format!("{e:?}"))?;
    let mut fri_alphas = vec![];
    for c in &fri_commitments {
        coin.reseed(*c);
        fri_alphas.push(coin.draw::<E>().map_err(|e| format!("{e:?}"))?);
    }
    if coin.check_leading_zeros(proof.pow_nonce) < air.options().grinding_factor() {
        return Err("proof-of-work check fails in the replay".into());
    }
    let mut positions = coin.draw_integers(air.options().num_queries(), lde, proof.pow_nonce).map_err(|e| format!("{e:?}"))?;
    positions.sort_unstable();
    positions.dedup();
    if positions.len() != proof.num_unique_queries as usize {
        return Err(format!("replayed {} unique positions, proof says {}", positions.len(), proof.num_unique_queries));
    }
    Ok(Transcript { air, aux_rands, z, deep, fri_alphas, positions, trace_commitments, constraint_commitment, fri_commitments })
}

/// opened rows of one Queries object
pub fn open_queries<E, H>(q: &Queries, lde: usize, num_queries: usize, width: usize) -> Result<(BatchMerkleProof<H>, Vec<Vec<E>>), String>
where
    E: FieldElement,
    H: ElementHasher<BaseField = E::BaseField>,
{
    let (mp, table): (BatchMerkleProof<H>, Table<E>) = q.clone().parse::<E, H, MerkleTree<H>>(lde, num_queries, width).map_err(|e| format!("queries: {e}"))?;
    Ok((mp, table.rows().map(|r| r.to_vec()).collect()))
}

pub fn rebuild_queries<E, H>(mp: BatchMerkleProof<H>, rows: Vec<Vec<E>>) -> Queries
where
    E: FieldElement,
    H: ElementHasher<BaseField = E::BaseField>,
{
    Queries::new::<H, E, MerkleTree<H>>(mp, rows)
}
