//! C04: tampered proof bytes are rejected unless semantically identical. For every mutated byte
//! string: decoding fails, or the verifier rejects (under OptionSet([original options]) and under
//! MinConjecturedSecurity(0)), or the decoded proof's PARSED contents equal the original's.
use genair::run::{verify, VerifyOutcome};
use genair::{GenAir, GenPub, SpecRef};
use vcommon::{guard, hex, json, Args, Report, Rng, Worker};
use vwf::{BaseFut, Fut};
use winter_air::proof::{Context, Proof};
use winter_air::{Air, TraceInfo};
use winter_crypto::hashers::{Blake3_256, Rp62_248, Rp64_256, RpJive64_256, Sha3_256};
use winter_crypto::{BatchMerkleProof, ElementHasher, MerkleTree};
use winter_math::fields::{f128, f62, f64 as f64m, CubeExtension, QuadExtension};
use winter_math::FieldElement;
use winter_utils::{Deserializable, Serializable};
use winterfell::AcceptableOptions;

use crate::pool::{make, Honest};
use crate::replay::{open_queries, rebuild_queries};

/// parsed contents, component by component (name, canonical bytes); None = does not parse
fn parsed<B, E, H>(p: &Proof, spec: &SpecRef) -> Option<Vec<(&'static str, Vec<u8>)>>
where
    B: BaseFut,
    E: FieldElement<BaseField = B>,
    H: ElementHasher<BaseField = B>,
{
    let air = GenAir::<B>::new(p.trace_info().clone(), GenPub::new(spec.clone()), p.options().clone());
    let lde = air.lde_domain_size();
    let nq = p.num_unique_queries as usize;
    let fo = air.options().to_fri_options();
    let mut out: Vec<(&'static str, Vec<u8>)> = vec![];
    out.push(("context", p.context.to_bytes()));
    out.push(("num_unique_queries", vec![p.num_unique_queries]));
    let (tc, cc, fc) = p.commitments.clone().parse::<H>(air.trace_info().num_segments(), fo.num_fri_layers(lde)).ok()?;
    let mut b = vec![];
    for d in tc.iter().chain([&cc]).chain(fc.iter()) {
        d.write_into(&mut b);
    }
    out.push(("commitments", b));
    let enc_mp = |mp: &BatchMerkleProof<H>| {
        let mut b = vec![mp.depth];
        for v in &mp.nodes {
            b.extend_from_slice(&(v.len() as u32).to_le_bytes());
            for d in v {
                d.write_into(&mut b);
            }
        }
        b
    };
    fn enc_rows<T: FieldElement>(rows: &[Vec<T>]) -> Vec<u8> {
        let mut b = vec![];
        for r in rows {
            b.extend_from_slice(&(r.len() as u32).to_le_bytes());
            for e in r {
                e.write_into(&mut b);
            }
        }
        b
    }
    if p.trace_queries.len() != air.trace_info().num_segments() {
        return None;
    }
    let (mp, rows) = open_queries::<B, H>(&p.trace_queries[0], lde, nq, air.trace_info().main_trace_width()).ok()?;
    out.push(("main_trace_queries.values", enc_rows(&rows)));
    out.push(("main_trace_queries.openings", enc_mp(&mp)));
    if air.trace_info().is_multi_segment() {
        let (mp, rows) = open_queries::<E, H>(&p.trace_queries[1], lde, nq, air.trace_info().aux_segment_width()).ok()?;
        out.push(("aux_trace_queries.values", enc_rows(&rows)));
        out.push(("aux_trace_queries.openings", enc_mp(&mp)));
    }
    let cw = air.context().num_constraint_composition_columns();
    let (mp, rows) = open_queries::<E, H>(&p.constraint_queries, lde, nq, cw).ok()?;
    out.push(("constraint_queries.values", enc_rows(&rows)));
    out.push(("constraint_queries.openings", enc_mp(&mp)));
    let (ot, oq) = p.ood_frame.clone().parse::<E>(air.trace_info().main_trace_width(), air.trace_info().aux_segment_width(), cw).ok()?;
    out.push(("ood_frame", enc_rows(&[ot.current_row().to_vec(), ot.next_row().to_vec(), oq.current_row().to_vec(), oq.next_row().to_vec()])));
    let rem: Vec<E> = p.fri_proof.parse_remainder().ok()?;
    out.push(("fri.remainder", enc_rows(&[rem])));
    // (the FRI partition count is not among the parsed contents the property lists; it is inert
    // when the proof has no FRI layers, so it is not compared)
    let (lq, lp) = p.fri_proof.clone().parse_layers::<E, H, MerkleTree<H>>(lde, fo.folding_factor()).ok()?;
    out.push(("fri.layer_values", enc_rows(&lq)));
    let mut b = vec![];
    for m in &lp {
        b.extend(enc_mp(m));
    }
    out.push(("fri.layer_openings", b));
    out.push(("pow_nonce", p.pow_nonce.to_le_bytes().to_vec()));
    Some(out)
}

/// first parsed component in which the mutated proof differs from the original
fn first_difference<B, E, H>(orig: &Proof, mutated: &Proof, spec: &SpecRef) -> Option<String>
where
    B: BaseFut,
    E: FieldElement<BaseField = B>,
    H: ElementHasher<BaseField = B>,
{
    if mutated.context != orig.context {
        let (a, b) = (&orig.context, &mutated.context);
        let what = if a.trace_info() != b.trace_info() {
            if a.trace_info().length() == b.trace_info().length() && a.trace_info().main_trace_width() == b.trace_info().main_trace_width()
                && a.trace_info().aux_segment_width() == b.trace_info().aux_segment_width()
                && a.trace_info().get_num_aux_segment_rand_elements() == b.trace_info().get_num_aux_segment_rand_elements() {
                // the one metadata edit the seed encoding is known not to bind (see C24): the two
                // metadata strings differ only by zero bytes inside the last seed chunk
                let (x, y) = (a.trace_info().meta(), b.trace_info().meta());
                let (s, l) = if x.len() <= y.len() { (x, y) } else { (y, x) };
                let chunk = B::ELEMENT_BYTES - 1;
                if !s.is_empty() && l[..s.len()] == *s && l[s.len()..].iter().all(|v| *v == 0) && s.len().div_ceil(chunk) == l.len().div_ceil(chunk) { "trace-metadata-zero-padding-within-last-chunk" } else { "trace-metadata" }
            } else { "trace-info" }
        } else if a.options() != b.options() {
            let (x, y) = (a.options(), b.options());
            if x.num_queries() == y.num_queries() && x.blowup_factor() == y.blowup_factor() && x.grinding_factor() == y.grinding_factor()
                && x.field_extension() == y.field_extension() && x.to_fri_options().folding_factor() == y.to_fri_options().folding_factor()
                && x.to_fri_options().remainder_max_degree() == y.to_fri_options().remainder_max_degree()
                && x.constraint_batching_method() == y.constraint_batching_method() && x.deep_poly_batching_method() == y.deep_poly_batching_method() { "partition-options" } else { "options" }
        } else { "other" };
        return Some(format!("context:{what}"));
    }
    let (a, b) = (parsed::<B, E, H>(orig, spec)?, parsed::<B, E, H>(mutated, spec));
    let b = match b {
        Some(b) => b,
        None => return Some("does-not-parse".into()),
    };
    for (x, y) in a.iter().zip(b.iter()) {
        if x != y {
            return Some(x.0.to_string());
        }
    }
    if a.len() != b.len() { Some("component-count".into()) } else { None }
}

struct Cx<'a> {
    rep: &'a mut Report,
    h: &'a Honest,
    name: &'a str,
}

fn judge<B, E, H>(cx: &mut Cx, kind: &str, bytes: &[u8])
where
    B: BaseFut,
    E: FieldElement<BaseField = B>,
    H: ElementHasher<BaseField = B> + Sync + Send,
{
    cx.rep.evals(1);
    cx.rep.count(&format!("mutations:{kind}"));
    let decoded = match guard(|| Proof::from_bytes(bytes)) {
        Ok(Ok(p)) => p,
        Ok(Err(_)) => {
            cx.rep.count("outcome:decode-error");
            return;
        },
        Err(_) => {
            // panics are C05's subject; here the input was simply not accepted
            cx.rep.count("outcome:decode-panic (C05)");
            return;
        },
    };
    // a different nonce that happens to yield the same position set is a legitimate protocol event
    // when there is no grinding and the position space is tiny: such proofs are not judged on
    // nonce-only edits (same rule as the field-level nonce edits)
    if decoded.pow_nonce != cx.h.proof.pow_nonce && !nonce_edits_judgeable(&cx.h.proof) {
        let mut same_but_nonce = decoded.clone();
        same_but_nonce.pow_nonce = cx.h.proof.pow_nonce;
        if same_but_nonce == cx.h.proof {
            cx.rep.count("skipped_inherent:nonce");
            return;
        }
    }
    let modes = [("OptionSet", AcceptableOptions::OptionSet(vec![cx.h.options.clone()])), ("MinConjecturedSecurity", AcceptableOptions::MinConjecturedSecurity(0))];
    for (mname, acc) in modes {
        match verify::<B, H>(decoded.clone(), &cx.h.spec, &acc) {
            VerifyOutcome::Accept => {
                match first_difference::<B, E, H>(&cx.h.proof, &decoded, &cx.h.spec) {
                    None => cx.rep.count("outcome:accepted-semantically-identical"),
                    Some(diff) => {
                        let class = if diff.starts_with("context:") { diff.clone() } else { format!("{diff}|{}", kind.split(':').next().unwrap_or("?")) };
                        cx.rep.violation(&format!("accepted-with-different-parsed-contents|{class}|{mname}"),
                            json!({"inst": cx.name, "mutation": kind, "differs_in": diff, "proof_len": bytes.len(), "first_bytes_changed_near": first_diff_offset(&cx.h.bytes, bytes), "options": format!("{:?}", cx.h.inst.opts)}));
                    },
                }
            },
            VerifyOutcome::Reject(_) => cx.rep.count("outcome:rejected"),
            VerifyOutcome::Panic(_) => cx.rep.count("outcome:verify-panic (C05)"),
        }
    }
}

/// grinding >= 1, or so many (position set) possibilities that two nonces agreeing is not a chance event
fn nonce_edits_judgeable(p: &Proof) -> bool {
    let lde = (p.trace_info().length() * p.options().blowup_factor()) as f64;
    p.options().grinding_factor() >= 1 || lde.log2() * p.num_unique_queries as f64 >= 40.0
}

fn first_diff_offset(a: &[u8], b: &[u8]) -> usize {
    a.iter().zip(b.iter()).position(|(x, y)| x != y).unwrap_or(a.len().min(b.len()))
}

fn byte_level<B, E, H>(cx: &mut Cx, rng: &mut Rng, exhaustive_bits: bool, budget: usize)
where
    B: BaseFut,
    E: FieldElement<BaseField = B>,
    H: ElementHasher<BaseField = B> + Sync + Send,
{
    let orig = cx.h.bytes.clone();
    let n = orig.len();
    // bit flips
    let positions: Vec<usize> = if exhaustive_bits {
        (0..n * 8).collect()
    } else {
        let mut v: Vec<usize> = (0..(64.min(n)) * 8).collect(); // the whole context area
        v.extend((n.saturating_sub(12) * 8)..n * 8);
        for (_, off) in &cx.h.layout {
            for k in 0..24 {
                if off * 8 + k < n * 8 {
                    v.push(off * 8 + k);
                }
            }
        }
        v.extend((0..budget).map(|_| rng.usize(n * 8)));
        v
    };
    for bit in positions {
        let mut b = orig.clone();
        b[bit / 8] ^= 1 << (bit % 8);
        judge::<B, E, H>(cx, "bit-flip", &b);
    }
    // byte substitutions
    for _ in 0..budget / 2 {
        let mut b = orig.clone();
        let at = rng.usize(n);
        let v = *rng.pick(&[0u8, 1, 0x7f, 0x80, 0xff]);
        if b[at] == v {
            continue;
        }
        b[at] = v;
        judge::<B, E, H>(cx, "byte-substitution", &b);
    }
    // truncation at every offset (every 7th for long proofs), and extension
    let step = if n > 6000 { 7 } else { 1 };
    for cut in (0..n).step_by(step) {
        judge::<B, E, H>(cx, "truncation", &orig[..cut]);
    }
    for extra in [vec![0u8], vec![0xff; 3], rng.bytes(16)] {
        let mut b = orig.clone();
        b.extend(extra);
        judge::<B, E, H>(cx, "trailing-bytes", &b);
    }
    // insertion / deletion of one byte at every component boundary and just inside it
    for (_, off) in cx.h.layout.clone() {
        for d in 0..3usize {
            let at = (off + d).min(n);
            let mut b = orig.clone();
            b.insert(at, *rng.pick(&[0u8, 1, 0xff]));
            judge::<B, E, H>(cx, "byte-inserted", &b);
            if at < n {
                let mut b = orig.clone();
                b.remove(at);
                judge::<B, E, H>(cx, "byte-deleted", &b);
            }
        }
    }
}

fn field_level<B, E, H>(cx: &mut Cx, rng: &mut Rng)
where
    B: BaseFut,
    E: FieldElement<BaseField = B>,
    H: ElementHasher<BaseField = B> + Sync + Send,
{
    let orig = cx.h.proof.clone();
    let ti = orig.trace_info().clone();
    let opts = orig.options().clone();
    let nc = orig.context.num_constraints();
    let with_ctx = |ti: TraceInfo, o: winter_air::ProofOptions, nc: usize| {
        let mut p = orig.clone();
        p.context = Context::new::<B>(ti, o, nc);
        p.to_bytes()
    };
    let mk_ti = |meta: Vec<u8>| TraceInfo::new_multi_segment(ti.main_trace_width(), ti.aux_segment_width(), ti.get_num_aux_segment_rand_elements(), ti.length(), meta);
    // metadata edits (length prefix kept consistent)
    let meta = ti.meta().to_vec();
    for k in [1usize, 2, 7] {
        let mut m = meta.clone();
        m.extend(std::iter::repeat(0u8).take(k));
        if m.len() <= 65535 {
            judge::<B, E, H>(cx, "field:metadata-zeros-appended", &with_ctx(mk_ti(m), opts.clone(), nc));
        }
    }
    if !meta.is_empty() {
        judge::<B, E, H>(cx, "field:metadata-last-byte-dropped", &with_ctx(mk_ti(meta[..meta.len() - 1].to_vec()), opts.clone(), nc));
        let mut m = meta.clone();
        m[0] ^= 1;
        judge::<B, E, H>(cx, "field:metadata-bit", &with_ctx(mk_ti(m), opts.clone(), nc));
    } else {
        judge::<B, E, H>(cx, "field:metadata-added", &with_ctx(mk_ti(vec![5]), opts.clone(), nc));
    }
    // partition options (not part of the seed)
    for (np, hr) in [(1usize, 2usize), (1, 255), (2, 1), (2, 255), (16, 255), (3, 8)] {
        let o = opts.clone().with_partitions(np, hr);
        if o != opts {
            judge::<B, E, H>(cx, "field:partition-options", &with_ctx(ti.clone(), o, nc));
        }
    }
    // constraint count
    for d in [1usize, 2] {
        judge::<B, E, H>(cx, "field:constraint-count", &with_ctx(ti.clone(), opts.clone(), nc + d));
    }
    // unique-query count
    for d in [1u8, 255] {
        let mut p = orig.clone();
        p.num_unique_queries = p.num_unique_queries.wrapping_add(d);
        judge::<B, E, H>(cx, "field:unique-query-count", &p.to_bytes());
    }
    // nonce: only when another nonce cannot plausibly give the same position set
    if nonce_edits_judgeable(&orig) {
        // +1, +2, +2^32, and + the field modulus (an integer reduced mod p before hashing would alias)
        let mut deltas = vec![1u64, 2, 1 << 32];
        if B::SPEC.p < 1u128 << 64 {
            deltas.push(B::SPEC.p as u64);
            deltas.push((B::SPEC.p as u64).wrapping_mul(2));
        }
        for d in deltas {
            let mut p = orig.clone();
            p.pow_nonce = p.pow_nonce.wrapping_add(d);
            if p.pow_nonce != orig.pow_nonce {
                judge::<B, E, H>(cx, "field:nonce", &p.to_bytes());
            }
        }
    } else {
        cx.rep.count("skipped_inherent:nonce");
    }
    // an unused extra node appended to an opening proof (length prefixes consistent)
    let air = GenAir::<B>::new(ti.clone(), GenPub::new(cx.h.spec.clone()), opts.clone());
    let lde_n = air.lde_domain_size();
    let nq = orig.num_unique_queries as usize;
    if let Ok((mp, rows)) = open_queries::<B, H>(&orig.trace_queries[0], lde_n, nq, ti.main_trace_width()) {
        if !mp.nodes.is_empty() {
            let mut nodes = mp.nodes.clone();
            let k = rng.usize(nodes.len());
            let extra = nodes.iter().flatten().next().cloned().unwrap_or_default();
            nodes[k].push(extra);
            let mut p = orig.clone();
            p.trace_queries[0] = rebuild_queries::<B, H>(BatchMerkleProof::<H> { nodes, depth: mp.depth }, rows.clone());
            judge::<B, E, H>(cx, "field:opening-extra-node", &p.to_bytes());
            // two node vectors swapped
            if mp.nodes.len() >= 2 && mp.nodes[0] != mp.nodes[1] {
                let mut nodes = mp.nodes.clone();
                nodes.swap(0, 1);
                let mut p = orig.clone();
                p.trace_queries[0] = rebuild_queries::<B, H>(BatchMerkleProof::<H> { nodes, depth: mp.depth }, rows);
                judge::<B, E, H>(cx, "field:opening-node-vectors-swapped", &p.to_bytes());
            }
        }
    }
    // one more unique query claimed and one more (copied or arbitrary) row appended to the values
    // of every Queries object, openings untouched: the parsed tables differ from the original's
    if nq < 255 {
        for arbitrary in [false, true] {
            let mut p = orig.clone();
            p.num_unique_queries += 1;
            let mut ok = true;
            match open_queries::<B, H>(&orig.trace_queries[0], lde_n, nq, ti.main_trace_width()) {
                Ok((mp, mut rows)) => {
                    let mut r = rows[rng.usize(rows.len())].clone();
                    if arbitrary {
                        r[0] += B::ONE;
                    }
                    rows.push(r);
                    p.trace_queries[0] = rebuild_queries::<B, H>(mp, rows);
                },
                Err(_) => ok = false,
            }
            if orig.trace_queries.len() > 1 {
                match open_queries::<E, H>(&orig.trace_queries[1], lde_n, nq, ti.aux_segment_width()) {
                    Ok((mp, mut rows)) => {
                        let mut r = rows[rng.usize(rows.len())].clone();
                        if arbitrary {
                            r[0] += E::ONE;
                        }
                        rows.push(r);
                        p.trace_queries[1] = rebuild_queries::<E, H>(mp, rows);
                    },
                    Err(_) => ok = false,
                }
            }
            match open_queries::<E, H>(&orig.constraint_queries, lde_n, nq, air.context().num_constraint_composition_columns()) {
                Ok((mp, mut rows)) => {
                    let mut r = rows[rng.usize(rows.len())].clone();
                    if arbitrary {
                        r[0] += E::ONE;
                    }
                    rows.push(r);
                    p.constraint_queries = rebuild_queries::<E, H>(mp, rows);
                },
                Err(_) => ok = false,
            }
            if ok {
                judge::<B, E, H>(cx, if arbitrary { "field:extra-opened-row-arbitrary" } else { "field:extra-opened-row-copied" }, &p.to_bytes());
            } else {
                cx.rep.count("extra-opened-row:queries-did-not-open (harness)");
            }
        }
    }
    // one more row appended to the query values of a FRI layer (length prefix consistent, opening
    // untouched)
    {
        let fb = orig.fri_proof.to_bytes();
        let lay = crate::frih::layout(&fb);
        let row = opts.to_fri_options().folding_factor() * E::ELEMENT_BYTES;
        for (depth, &(vat, vl, _, _)) in lay.layers.iter().enumerate().take(2) {
            if vl < row {
                continue;
            }
            let mut b = fb[..vat - 4].to_vec();
            b.extend_from_slice(&((vl + row) as u32).to_le_bytes());
            b.extend_from_slice(&fb[vat..vat + vl]);
            b.extend_from_slice(&fb[vat..vat + row]); // a copy of the first row
            b.extend_from_slice(&fb[vat + vl..]);
            if let Ok(fp) = winter_fri::FriProof::read_from_bytes(&b) {
                let mut p = orig.clone();
                p.fri_proof = fp;
                judge::<B, E, H>(cx, &format!("field:fri-layer-extra-row:layer{}", depth.min(1)), &p.to_bytes());
            }
        }
    }
    // one more FRI layer than the options imply (a copy of the last one), layer count byte updated
    {
        let fb = orig.fri_proof.to_bytes();
        let lay = crate::frih::layout(&fb);
        if let Some(&(vat, _, pat, pl)) = lay.layers.last() {
            if fb[0] < 255 {
                let mut b = vec![fb[0] + 1];
                b.extend_from_slice(&fb[1..pat + pl]);
                b.extend_from_slice(&fb[vat - 4..pat + pl]);
                b.extend_from_slice(&fb[pat + pl..]);
                if let Ok(fp) = winter_fri::FriProof::read_from_bytes(&b) {
                    let mut p = orig.clone();
                    p.fri_proof = fp;
                    judge::<B, E, H>(cx, "field:fri-extra-layer", &p.to_bytes());
                }
            }
        }
    }
    // FRI partition exponent
    {
        let mut b = cx.h.bytes.clone();
        let at = b.len() - 9; // last byte of the FRI proof, before the 8-byte nonce
        for v in [1u8, 2, 7] {
            b[at] = v;
            judge::<B, E, H>(cx, "field:fri-partition-exponent", &b);
        }
    }
}

fn run_one<B, E, H>(rep: &mut Report, rng: &mut Rng, h: &Honest, name: &str, exhaustive: bool, budget: usize)
where
    B: BaseFut,
    E: FieldElement<BaseField = B>,
    H: ElementHasher<BaseField = B> + Sync + Send,
{
    // self-check of the oracle: the untouched proof is accepted and identical to itself
    let acc = AcceptableOptions::OptionSet(vec![h.options.clone()]);
    if verify::<B, H>(h.proof.clone(), &h.spec, &acc) != VerifyOutcome::Accept || first_difference::<B, E, H>(&h.proof, &h.proof, &h.spec).is_some() || parsed::<B, E, H>(&h.proof, &h.spec).is_none() {
        rep.inconclusive("oracle-self-check-failed (harness)", json!({"inst": name}));
        return;
    }
    rep.distinct_key(format!("{name}/{}", hex(&h.bytes[..32.min(h.bytes.len())])).as_bytes());
    let mut cx = Cx { rep, h, name };
    field_level::<B, E, H>(&mut cx, rng);
    byte_level::<B, E, H>(&mut cx, rng, exhaustive, budget);
    if cx.rep.samples.len() < cx.rep.max_samples {
        cx.rep.sample(json!({"inst": name, "proof_bytes": h.bytes.len(), "layout": h.layout.iter().map(|(n, o)| format!("{n}@{o}")).collect::<Vec<_>>(), "options": format!("{:?}", h.inst.opts)}));
    }
}

pub fn run(args: &Args) {
    let mut rep = Report::new("C04", "c04",
        "per honest GenAir proof (3 fields, 3 hashers, all 3 extensions, main-only and auxiliary, partitions, grinding): every bit of the context area, of each component's first 3 bytes and of the tail plus random bit flips (thorough: EVERY bit of each proof), byte substitutions {0,1,7f,80,ff}, truncation at every offset, trailing bytes, one byte inserted / deleted at and just inside every component boundary, and field-level edits with consistent length prefixes (metadata zeros appended / byte dropped / bit, partition options, constraint count, unique-query count, nonce, an unused node appended to an opening, swapped node vectors, unique-query count + 1 together with one more (copied / arbitrary) row in every Queries value vector, one more row in a FRI layer's query values, one more FRI layer, FRI partition exponent); each mutated string: decode error, or rejected under OptionSet([original]) and under MinConjecturedSecurity(0), or parsed contents (context, unique-query count, commitment digests, query values and openings, OOD frame, FRI layers / remainder / partitions, nonce) equal to the original's; evaluation = one mutated string; distinct = proofs");
    let seed = args.seed();
    let thorough = args.thorough();
    let budget = args.u64("budget", if thorough { 6000 } else { 1200 }) as usize;
    type F64 = f64m::BaseElement;
    type F62 = f62::BaseElement;
    type F128 = f128::BaseElement;
    let mut w = Worker::new(args, 12);
    for case in w.from..w.to {
        if !w.start(case, &mut rep) {
            continue;
        }
        let mut rng = Rng::for_case(seed, 400, case);
        let exhaustive = thorough && case % 3 == 0;
        macro_rules! go {
            ($b:ty, $h:ty, $name:expr) => {{
                if let Some(h) = make::<$b, $h>(&mut rng, case / 7) {
                    match h.inst.opts.ext {
                        0 => run_one::<$b, $b, $h>(&mut rep, &mut rng, &h, $name, exhaustive, budget),
                        1 => run_one::<$b, QuadExtension<$b>, $h>(&mut rep, &mut rng, &h, $name, exhaustive, budget),
                        _ => go!(@cubic $b, $h, $name, h),
                    }
                } else {
                    rep.inconclusive("could-not-build-honest-proof", json!({"case": case}));
                }
            }};
            (@cubic f128::BaseElement, $h:ty, $name:expr, $hh:ident) => {{ let _ = $hh; }};
            (@cubic $b:ty, $h:ty, $name:expr, $hh:ident) => {{ run_one::<$b, CubeExtension<$b>, $h>(&mut rep, &mut rng, &$hh, $name, exhaustive, budget) }};
        }
        match case % 7 {
            0 => go!(F64, Blake3_256<F64>, "f64/Blake3_256"),
            1 => go!(F62, Blake3_256<F62>, "f62/Blake3_256"),
            2 => go!(f128::BaseElement, Sha3_256<F128>, "f128/Sha3_256"),
            3 => go!(F64, Rp64_256, "f64/Rp64_256"),
            4 => go!(F64, RpJive64_256, "f64/RpJive64_256"),
            5 => go!(F62, Rp62_248, "f62/Rp62_248"),
            _ => go!(F64, Sha3_256<F64>, "f64/Sha3_256"),
        }
    }
    let _ = <F64 as Fut>::DEG;
    rep.finish(&args.out());
}
