//! Corruptions of satisfying traces, shared by C02 (verifier must reject) and C29 (validate must
//! panic). A corruption is only a description; whether it breaks the statement is decided by the
//! independent checker, never assumed.
use genair::spec::Spec;
use vcommon::Rng;

#[derive(Clone, Debug)]
pub struct Corruption {
    pub class: String,
    pub cells: Vec<(usize, usize)>, // (column, row)
}

/// rows of interest for a spec: first, interior, last non-exempt "current" row, the row only
/// reached as "next" of the last non-exempt step, first fully exempt row, last row
pub fn row_classes(spec: &Spec, rng: &mut Rng) -> Vec<(&'static str, usize)> {
    let (n, e) = (spec.n(), spec.exemptions);
    let mut v = vec![("first", 0usize), ("interior", 1 + rng.usize(n - e - 1).min(n - e - 2)), ("last-non-exempt-current", n - e - 1), ("next-of-last-non-exempt", n - e), ("last", n - 1)];
    if e >= 2 {
        v.push(("first-fully-exempt", n - e + 1));
    }
    v
}

pub fn apply(main: &[Vec<u128>], c: &Corruption, p: u128, rng: &mut Rng) -> Vec<Vec<u128>> {
    let mut m = main.to_vec();
    for &(col, row) in &c.cells {
        let old = m[col][row];
        let mut v = if rng.bool() { (old + 1) % p } else { rng.below128(p) };
        if v == old {
            v = (old + 1) % p;
        }
        m[col][row] = v;
    }
    m
}

pub fn corruptions(spec: &Spec, rng: &mut Rng) -> Vec<Corruption> {
    let n = spec.n();
    let mut out = vec![];
    let constrained: Vec<usize> = spec.constraints.iter().map(|c| c.target).collect();
    for (name, row) in row_classes(spec, rng) {
        // a constrained column, any column
        let col = *rng.pick(&constrained);
        out.push(Corruption { class: format!("cell:{name}:constrained-column"), cells: vec![(col, row)] });
        let col = rng.usize(spec.width);
        out.push(Corruption { class: format!("cell:{name}:any-column"), cells: vec![(col, row)] });
    }
    // an asserted cell of every assertion
    for a in &spec.assertions {
        let steps = a.steps(n);
        let s = *rng.pick(&steps);
        out.push(Corruption { class: format!("cell:asserted:kind{}", a.kind), cells: vec![(a.col, s)] });
    }
    // a whole row, a whole column, two rows swapped is expressed as two rewritten rows
    let row = rng.usize(n);
    out.push(Corruption { class: "row".into(), cells: (0..spec.width).map(|c| (c, row)).collect() });
    let col = rng.usize(spec.width);
    out.push(Corruption { class: "column".into(), cells: (0..n).map(|r| (col, r)).collect() });
    let (r1, r2) = (rng.usize(n), rng.usize(n));
    if r1 != r2 {
        out.push(Corruption { class: "two-rows".into(), cells: (0..spec.width).flat_map(|c| [(c, r1), (c, r2)]).collect() });
    }
    out
}
