//! STARK-level monitors (GenAir based): C01, C02, C29, ...
use vcommon::Args;

mod c01;

fn main() {
    vcommon::install_panic_hook();
    let args = Args::parse();
    match args.stage.as_str() {
        "c01" => c01::run(&args),
        s => {
            eprintln!("unknown stage {s}");
            std::process::exit(2);
        },
    }
}
