//! STARK-level monitors (GenAir based): C01, C02, C29, ...
use vcommon::Args;

mod c01;
#[cfg(feature = "with-examples")]
mod c01x;
mod c02;
mod c03;
mod c04;
#[path = "../../mon_leaf/src/fri_attacks.rs"]
#[allow(dead_code)]
mod fri_attacks;
#[path = "../../mon_leaf/src/frih.rs"]
#[allow(dead_code)]
mod frih;
mod replay;
mod c05;
mod pool;
mod c06;
mod c07;
mod c22;
mod c23;
mod c28;
mod c29;
mod corrupt;

fn main() {
    vcommon::install_panic_hook();
    let args = Args::parse();
    match args.stage.as_str() {
        "c01" => c01::run(&args),
        #[cfg(feature = "with-examples")]
        "c01_examples" => c01x::run(&args),
        "c02" => c02::run(&args),
        "c03" => c03::run(&args),
        "c04" => c04::run(&args),
        "c05" => c05::run(&args),
        "c05_decoders" => c05::decoders(&args),
        "c06" => c06::run(&args),
        "c07" => c07::run(&args),
        "c22" => c22::run(&args),
        "c23" => c23::run(&args),
        "c28" => c28::run(&args),
        "c29" => c29::run(&args),
        s => {
            eprintln!("unknown stage {s}");
            std::process::exit(2);
        },
    }
}
