//! C29: the prover's trace validation agrees with the independent constraint checker; trace
//! tables built by fill / init / fragments hold the same rows.
use genair::checker::{check_aux, check_main};
use genair::run::gen_instance;
use genair::spec::Spec;
use genair::{build_aux, stark_dispatch, GenAir, GenPub, GenTrace};
use vcommon::refarith::Ext;
use vcommon::{guard, json, Args, Report, Rng, Value, Worker};
use vwf::{BaseFut, Fut};
use winter_crypto::ElementHasher;
use winter_math::fields::{CubeExtension, QuadExtension};
use winter_math::FieldElement;
use winterfell::{Air, AuxRandElements, AuxTraceWithMetadata, Trace, TraceTable};

use crate::c01::{describe, params_for};
use crate::corrupt::{apply, corruptions};

/// runs Trace::validate; Ok(()) accepted, Err(message) panicked
fn validate<B, E>(spec: &genair::SpecRef, main: &[Vec<u128>], options: &winterfell::ProofOptions, aux: Option<(&[E], Option<(usize, usize)>)>) -> Result<(), String>
where
    B: BaseFut,
    E: FieldElement<BaseField = B>,
{
    let trace = GenTrace::<B>::new(spec, main);
    let air = GenAir::<B>::new(trace.info().clone(), GenPub::new(spec.clone()), options.clone());
    let r = guard(|| match aux {
        Some((rands, corrupt)) => {
            let aux_trace = build_aux::<B, E>(spec, trace.main_segment(), rands, corrupt);
            let meta = AuxTraceWithMetadata { aux_trace, aux_rand_elements: AuxRandElements::new(rands.to_vec()) };
            trace.validate::<GenAir<B>, E>(&air, Some(&meta))
        },
        None => trace.validate::<GenAir<B>, E>(&air, None),
    });
    r.map_err(|p| format!("{}:{} {}", p.rel_file(), p.line, p.message))
}

fn is_validation_message(m: &str) -> bool {
    m.contains("did not evaluate to ZERO") || m.contains("trace does not satisfy assertion")
}

fn compare(rep: &mut Report, ctx: &Value, what: &str, want_violation: bool, got: Result<(), String>) {
    rep.evals(1);
    rep.count(if want_violation { "cases_statement_false" } else { "cases_statement_true" });
    match (want_violation, got) {
        (false, Ok(())) => {},
        (true, Err(m)) if is_validation_message(&m) => {},
        (true, Err(m)) => rep.violation("validate-panicked-for-another-reason", json!({"ctx": ctx, "what": what, "message": m})),
        (true, Ok(())) => rep.violation(&format!("validate-accepts-unsatisfying-trace|{}", what.split(':').take(2).collect::<Vec<_>>().join(":")), json!({"ctx": ctx, "what": what})),
        (false, Err(m)) => rep.violation(&format!("validate-rejects-satisfying-trace|{}", what.split(':').take(2).collect::<Vec<_>>().join(":")), json!({"ctx": ctx, "what": what, "message": m})),
    }
}

fn with_ext<B, E>(rep: &mut Report, rng: &mut Rng, spec: &genair::SpecRef, main: &[Vec<u128>], options: &winterfell::ProofOptions, ctx: &Value)
where
    B: BaseFut,
    E: Fut<B = B> + FieldElement<BaseField = B>,
{
    let s: &Spec = spec;
    let p = s.p();
    let es = E::spec();
    let rands: Vec<E> = (0..s.aux_rands).map(|_| E::gen(rng).0).collect();
    let rands_ref: Vec<Ext> = rands.iter().map(|r| r.to_ref()).collect();
    let has_aux = !s.aux.is_empty();
    let aux_arg = |c: Option<(usize, usize)>| if has_aux { Some((&rands[..], c)) } else { None };
    // satisfying trace
    compare(rep, ctx, "honest", false, validate::<B, E>(spec, main, options, aux_arg(None)));
    // main corruptions
    for c in corruptions(s, rng) {
        let bad = apply(main, &c, p, rng);
        let mut want = !check_main(s, &bad).is_empty();
        if has_aux && !want {
            // the auxiliary segment is rebuilt from the edited main trace, so it stays consistent
            let aux_cols: Vec<Vec<Ext>> = {
                let t = GenTrace::<B>::new(spec, &bad);
                let a = build_aux::<B, E>(spec, t.main_segment(), &rands, None);
                (0..s.aux.len()).map(|k| a.get_column(k).iter().map(|e| e.to_ref()).collect()).collect()
            };
            want = !check_aux(s, &es, &bad, &aux_cols, &rands_ref).is_empty();
        }
        compare(rep, ctx, &format!("main:{}", c.class), want, validate::<B, E>(spec, &bad, options, aux_arg(None)));
    }
    // auxiliary corruptions
    if has_aux {
        let (n, e) = (s.n(), s.exemptions);
        for row in [0usize, 1, n / 2, n - e - 1, n - e, (n - e + 1).min(n - 1), n - 1] {
            let col = rng.usize(s.aux.len());
            let aux_cols: Vec<Vec<Ext>> = {
                let t = GenTrace::<B>::new(spec, main);
                let a = build_aux::<B, E>(spec, t.main_segment(), &rands, Some((col, row)));
                (0..s.aux.len()).map(|k| a.get_column(k).iter().map(|x| x.to_ref()).collect()).collect()
            };
            let want = !check_aux(s, &es, main, &aux_cols, &rands_ref).is_empty();
            compare(rep, ctx, &format!("aux:row-class-{}", if row == 0 { "first" } else if row > n - e { "exempt" } else { "constrained" }), want, validate::<B, E>(spec, main, options, aux_arg(Some((col, row)))));
        }
    }
}

fn one<B, H>(rep: &mut Report, rng: &mut Rng, case: u64, max_log_n: u32, name: &str)
where
    B: BaseFut + Fut<B = B>,
    H: ElementHasher<BaseField = B> + Sync + Send,
    QuadExtension<B>: Fut<B = B> + FieldElement<BaseField = B>,
{
    let gp = params_for(rng, case, max_log_n, false);
    let inst = gen_instance(rng, B::SPEC, &gp);
    let ctx = describe(&inst, name);
    rep.distinct_key(format!("{ctx}").as_bytes());
    let options = inst.opts.build();
    match case % 3 {
        0 => with_ext::<B, B>(rep, rng, &inst.spec, &inst.main, &options, &ctx),
        _ => with_ext::<B, QuadExtension<B>>(rep, rng, &inst.spec, &inst.main, &options, &ctx),
    }
    if rep.samples.len() < rep.max_samples {
        rep.sample(ctx);
    }
    let _ = std::marker::PhantomData::<H>;
}

/// cubic-extension variant for the two fields that have one
fn one_cubic<B>(rep: &mut Report, rng: &mut Rng, case: u64, max_log_n: u32, name: &str)
where
    B: BaseFut,
    CubeExtension<B>: Fut<B = B> + FieldElement<BaseField = B>,
{
    let mut gp = params_for(rng, case, max_log_n, false);
    gp.aux = true;
    let inst = gen_instance(rng, B::SPEC, &gp);
    let ctx = describe(&inst, name);
    rep.distinct_key(format!("{ctx}").as_bytes());
    let options = inst.opts.build();
    with_ext::<B, CubeExtension<B>>(rep, rng, &inst.spec, &inst.main, &options, &ctx);
}

// ------------------------------------------------------------------------------------------------
// trace table construction routes
// ------------------------------------------------------------------------------------------------

fn cell<B: BaseFut>(seed: u64, row: usize, col: usize) -> B {
    let mut r = Rng::for_case(seed, col as u64 + 77, row as u64);
    B::from_int(r.below128(B::SPEC.p))
}

fn tables<B: BaseFut>(rep: &mut Report, seed: u64, log_n: u32, width: usize) {
    #[allow(unused_imports)]
    use winterfell::iterators::*;
    let n = 1usize << log_n;
    let ctx = json!({"field": B::SPEC.name, "n": n, "width": width});
    rep.distinct_key(format!("tables/{ctx}").as_bytes());
    // route 1: sequential fill
    let mut t1 = TraceTable::<B>::new(width, n);
    t1.fill(
        |state| {
            for (c, s) in state.iter_mut().enumerate() {
                *s = cell::<B>(seed, 0, c);
            }
        },
        |i, state| {
            for (c, s) in state.iter_mut().enumerate() {
                *s = cell::<B>(seed, i + 1, c);
            }
        },
    );
    // route 2: from columns
    let t2 = TraceTable::<B>::init((0..width).map(|c| (0..n).map(|r| cell::<B>(seed, r, c)).collect()).collect());
    let same = |a: &TraceTable<B>, b: &TraceTable<B>| (0..width).all(|c| a.get_column(c) == b.get_column(c));
    rep.evals(1);
    if !same(&t1, &t2) || t1.info().length() != n || t2.info().main_trace_width() != width {
        rep.violation("fill-differs-from-init", ctx.clone());
    }
    // rows read back
    let mut row = vec![B::ZERO; width];
    for r in [0, n / 2, n - 1] {
        t1.read_row_into(r, &mut row);
        if (0..width).any(|c| row[c] != cell::<B>(seed, r, c) || t1.get(c, r) != row[c]) {
            rep.violation("row-read-back-differs", json!({"ctx": ctx, "row": r}));
        }
    }
    // route 3: fragments of every admissible length
    let mut fl = 2;
    while fl <= n {
        rep.evals(1);
        rep.count("fragment_fills");
        let mut t3 = TraceTable::<B>::new(width, n);
        let r = guard(|| {
            t3.fragments(fl).for_each(|mut frag| {
                let off = frag.offset();
                debug_assert_eq!(frag.index() * fl, off);
                frag.fill(
                    |state| {
                        for (c, s) in state.iter_mut().enumerate() {
                            *s = cell::<B>(seed, off, c);
                        }
                    },
                    |i, state| {
                        for (c, s) in state.iter_mut().enumerate() {
                            *s = cell::<B>(seed, off + i + 1, c);
                        }
                    },
                );
            });
        });
        match r {
            Ok(()) => {
                if !same(&t1, &t3) {
                    rep.violation("fragments-differ-from-fill", json!({"ctx": ctx, "fragment_length": fl}));
                }
            },
            Err(p) => rep.violation(&format!("{}|fragments", p.sig()), json!({"ctx": ctx, "fragment_length": fl})),
        }
        fl *= 2;
    }
    // route 4: the documented default - `init` receives a state "initialized to all zeros" - on
    // tables that already hold data: one register is left untouched by `init` and copied forward
    // by `update`, so the whole column must read zero (per fragment: the fragment's first row
    // onward)
    let skip = (seed as usize) % width;
    let expect = |r: usize, c: usize, first_row: usize| if c == skip { let _ = first_row; B::ZERO } else { cell::<B>(seed, r, c) };
    let mut t4 = TraceTable::<B>::init((0..width).map(|c| (0..n).map(|r| cell::<B>(seed ^ 0x55, r, c) + B::ONE).collect()).collect());
    rep.evals(1);
    t4.fill(
        |state| {
            for (c, s) in state.iter_mut().enumerate() {
                if c != skip {
                    *s = cell::<B>(seed, 0, c);
                }
            }
        },
        |i, state| {
            for (c, s) in state.iter_mut().enumerate() {
                if c != skip {
                    *s = cell::<B>(seed, i + 1, c);
                }
            }
        },
    );
    if (0..width).any(|c| (0..n).any(|r| t4.get(c, r) != expect(r, c, 0))) {
        rep.violation("fill-init-state-not-zero", ctx.clone());
    }
    for fl in [2usize, n / 2, n].into_iter().filter(|f| *f >= 2) {
        rep.evals(1);
        rep.count("fragment_refills_relying_on_zero_default");
        let mut t5 = TraceTable::<B>::init((0..width).map(|c| (0..n).map(|r| cell::<B>(seed ^ 0xaa, r, c) + B::ONE).collect()).collect());
        let r = guard(|| {
            t5.fragments(fl).for_each(|mut frag| {
                let off = frag.offset();
                frag.fill(
                    |state| {
                        for (c, s) in state.iter_mut().enumerate() {
                            if c != skip {
                                *s = cell::<B>(seed, off, c);
                            }
                        }
                    },
                    |i, state| {
                        for (c, s) in state.iter_mut().enumerate() {
                            if c != skip {
                                *s = cell::<B>(seed, off + i + 1, c);
                            }
                        }
                    },
                );
            });
        });
        match r {
            Ok(()) => {
                if (0..width).any(|c| (0..n).any(|r| t5.get(c, r) != expect(r, c, r - r % fl))) {
                    rep.violation("fragment-init-state-not-zero", json!({"ctx": ctx, "fragment_length": fl, "untouched_register": skip}));
                }
            },
            Err(p) => rep.violation(&format!("{}|fragments-refill", p.sig()), json!({"ctx": ctx, "fragment_length": fl})),
        }
    }
}

pub fn run(args: &Args) {
    use winter_math::fields::{f128, f62, f64 as f64m};
    let mut rep = Report::new("C29", "c29",
        "per random GenAir instance (as C01, base / quadratic / cubic auxiliary field): Trace::validate on the satisfying trace and on every corruption class (cells at first / interior / last non-exempt / next-of-last-non-exempt / first fully exempt / last row in constrained and random columns, every assertion's cell, a row, a column, two rows; auxiliary cells at 7 row classes): validate panics with its violation message <=> the independent checker (reference arithmetic, periodic values by index) reports a violation; TraceTable fill vs init vs fragments of every length 2..n (rayon in the concurrent build), refills of populated tables through fill / fragments whose init closure leaves a register at the documented zero default, widths 1..9, n = 8..4096; evaluation = one validate call or table comparison; distinct = instances");
    let seed = args.seed();
    let max_log_n = args.u64("maxlogn", if args.thorough() { 10 } else { 7 }) as u32;
    let mut w = Worker::new(args, 60);
    for case in w.from..w.to {
        if !w.start(case, &mut rep) {
            continue;
        }
        let mut rng = Rng::for_case(seed, 2900, case);
        match case % 8 {
            6 => one_cubic::<f64m::BaseElement>(&mut rep, &mut rng, case, max_log_n, "f64^3"),
            7 => one_cubic::<f62::BaseElement>(&mut rep, &mut rng, case, max_log_n, "f62^3"),
            5 => {
                let log_n = 3 + (case / 8 % 10) as u32;
                let width = 1 + (case / 80 % 9) as usize;
                match case / 8 % 3 {
                    0 => tables::<f64m::BaseElement>(&mut rep, seed ^ case, log_n, width),
                    1 => tables::<f62::BaseElement>(&mut rep, seed ^ case, log_n, width),
                    _ => tables::<f128::BaseElement>(&mut rep, seed ^ case, log_n, width),
                }
            },
            _ => stark_dispatch!(one, case, &mut rep, &mut rng, case, max_log_n),
        }
    }
    rep.finish(&args.out());
}
