//! C07: protocol objects survive serialization round trips.
use std::sync::Arc;

use genair::run::{gen_instance, prove, verify, ProveOutcome, VerifyOutcome};
use genair::stark_dispatch;
use vcommon::{guard, hex, json, Args, Report, Rng, Value};
use vwf::BaseFut;
use winter_air::proof::{Commitments, Context, OodFrame, Proof, Queries};
use winter_air::{BatchingMethod, FieldExtension, PartitionOptions, ProofOptions, TraceInfo};
use winter_crypto::hashers::{Blake3_192, Blake3_256, Rp62_248, Rp64_256, RpJive64_256, Sha3_256};
use winter_crypto::{ElementHasher, Hasher};
use winter_fri::FriProof;
use winter_math::fields::{f128, f62, f64 as f64m};
use winter_utils::{ByteReader, Deserializable, Serializable, SliceReader};
use winterfell::AcceptableOptions;

use crate::c01::params_for;

/// x -> bytes -> x' : equal value, all bytes consumed, identical re-encoding
fn round_trip<T: Serializable + Deserializable + PartialEq>(rep: &mut Report, what: &str, class: &str, x: &T, detail: impl Fn() -> Value) {
    rep.evals(1);
    rep.count(&format!("round_trips:{what}"));
    let bytes = match guard(|| x.to_bytes()) {
        Ok(b) => b,
        Err(p) => {
            rep.violation(&format!("{}|encode|{what}|{class}", p.sig()), detail());
            return;
        },
    };
    let r = guard(|| {
        let mut rd = SliceReader::new(&bytes);
        let v = T::read_from(&mut rd);
        (v, rd.has_more_bytes())
    });
    match r {
        Ok((Ok(y), more)) => {
            if y != *x {
                rep.violation(&format!("round-trip-value-differs|{what}|{class}"), detail());
            } else if more {
                rep.violation(&format!("round-trip-leaves-bytes|{what}|{class}"), detail());
            } else if y.to_bytes() != bytes {
                rep.violation(&format!("round-trip-reencoding-differs|{what}|{class}"), detail());
            }
        },
        Ok((Err(e), _)) => rep.violation(&format!("own-encoding-rejected|{what}|{class}"), json!({"d": detail(), "error": format!("{e}")})),
        Err(p) => rep.violation(&format!("{}|decode-own-encoding|{what}|{class}", p.sig()), detail()),
    }
}

fn trace_infos(rep: &mut Report, rng: &mut Rng, thorough: bool) -> Vec<TraceInfo> {
    let mut keep = vec![];
    let metas: Vec<Vec<u8>> = vec![vec![], vec![0], rng.bytes(1), rng.bytes(7), rng.bytes(255), rng.bytes(256), rng.bytes(65535), vec![0; 65535]];
    for main in [1usize, 2, 3, 127, 128, 253, 254, 255] {
        for aux in [0usize, 1, 2, 127, 253, 254] {
            if main + aux > 255 {
                continue;
            }
            for rands in [0usize, 1, 2, 128, 254, 255] {
                if aux == 0 && rands != 0 {
                    continue;
                }
                for log_len in (3u32..=(if thorough { 63 } else { 40 })).step_by(if thorough { 1 } else { 3 }).chain([31, 32, 33, 62, 63]) {
                    let meta = rng.pick(&metas).clone();
                    let class = format!("w{}a{}r{}", if main + aux == 255 { "=255" } else { "<255" }, if aux == 0 { "0" } else { ">0" }, if rands == 0 { "0" } else { ">0" });
                    let ml = meta.len();
                    match guard(|| TraceInfo::new_multi_segment(main, aux, rands, 1usize << log_len, meta)) {
                        Ok(ti) => {
                            rep.distinct_key(format!("ti/{main}/{aux}/{rands}/{log_len}/{ml}").as_bytes());
                            round_trip(rep, "TraceInfo", &class, &ti, || json!({"main": main, "aux": aux, "rands": rands, "log_len": log_len, "meta_len": ml}));
                            if log_len <= 20 && keep.len() < 400 && (main + aux) % 2 == 1 {
                                keep.push(ti);
                            }
                        },
                        Err(p) => rep.violation(&format!("{}|documented-valid-trace-info-refused", p.sig()), json!({"main": main, "aux": aux, "rands": rands, "log_len": log_len})),
                    }
                }
            }
        }
    }
    keep
}

fn proof_options(rep: &mut Report, rng: &mut Rng) -> Vec<ProofOptions> {
    let ext = [FieldExtension::None, FieldExtension::Quadratic, FieldExtension::Cubic];
    let bm = [BatchingMethod::Linear, BatchingMethod::Algebraic, BatchingMethod::Horner];
    let mut keep = vec![];
    // every bound of every field
    for q in [1usize, 2, 127, 128, 254, 255] {
        for b in [2usize, 4, 64, 128] {
            for g in [0u32, 1, 16, 31, 32] {
                for (f, r) in [(2usize, 0usize), (2, 255), (4, 1), (8, 127), (16, 255), (16, 0)] {
                    let o = ProofOptions::new(q, b, g, *rng.pick(&ext), f, r, *rng.pick(&bm), *rng.pick(&bm));
                    rep.distinct_key(format!("po/{q}/{b}/{g}/{f}/{r}").as_bytes());
                    round_trip(rep, "ProofOptions", "bounds", &o, || json!({"queries": q, "blowup": b, "grinding": g, "folding": f, "rem": r}));
                    if keep.len() < 60 {
                        keep.push(o);
                    }
                }
            }
        }
    }
    for e in ext {
        for a in bm {
            for d in bm {
                let o = ProofOptions::new(30, 8, 20, e, 8, 127, a, d);
                round_trip(rep, "ProofOptions", "enums", &o, || json!({"ext": format!("{e:?}"), "bc": format!("{a:?}"), "bd": format!("{d:?}")}));
            }
        }
    }
    // every partition setting the constructor accepts
    for np in 1..=16usize {
        for hr in 1..=256usize {
            match guard(|| PartitionOptions::new(np, hr)) {
                Ok(_) => {
                    let o = ProofOptions::new(27, 8, 0, FieldExtension::None, 4, 31, BatchingMethod::Linear, BatchingMethod::Linear).with_partitions(np, hr);
                    rep.distinct_key(format!("part/{np}/{hr}").as_bytes());
                    round_trip(rep, "ProofOptions", if hr == 256 { "hash_rate=256" } else { "partitions" }, &o, || json!({"partitions": np, "hash_rate": hr}));
                    if hr % 61 == 0 {
                        keep.push(o);
                    }
                },
                Err(p) => rep.violation(&format!("{}|documented-valid-partition-options-refused", p.sig()), json!({"partitions": np, "hash_rate": hr})),
            }
        }
    }
    keep
}

/// digests of every hasher: from hashing, and from canonical boundary encodings
fn digests<H: Hasher>(rep: &mut Report, rng: &mut Rng, name: &str, size: usize, limb_bits: Option<(u32, u128)>) {
    for i in 0..200 {
        let d = H::hash(&rng.bytes(1 + i % 40));
        rep.distinct_key(format!("dg/{name}/{i}").as_bytes());
        round_trip(rep, "Digest", name, &d, || json!({"hasher": name}));
        if d.to_bytes().len() != size {
            rep.violation(&format!("digest-encoded-size|{name}"), json!({"len": d.to_bytes().len(), "documented": size}));
        }
    }
    // element digests: boundary limb values packed by the documented layout
    if let Some((bits, p)) = limb_bits {
        let cands = [0u128, 1, 2, p - 1, p - 2, p / 2, (1 << (bits - 1)) - 1, 1 << (bits - 1), (1u128 << 32) - 1, 1u128 << 32];
        for _ in 0..300 {
            let limbs: Vec<u128> = (0..4).map(|_| if rng.bool() { *rng.pick(&cands) % p } else { rng.below128(p) }).collect();
            let mut acc: Vec<u8> = vec![];
            // little-endian bit packing of four `bits`-bit limbs
            let mut big = [0u8; 32];
            let mut pos = 0u32;
            for l in &limbs {
                for b in 0..bits {
                    if l >> b & 1 == 1 {
                        big[((pos + b) / 8) as usize] |= 1 << ((pos + b) % 8);
                    }
                }
                pos += bits;
            }
            acc.extend_from_slice(&big[..size]);
            rep.evals(1);
            rep.count("round_trips:Digest-from-boundary-limbs");
            match guard(|| H::Digest::read_from_bytes(&acc)) {
                Ok(Ok(d)) => {
                    if d.to_bytes() != acc {
                        rep.violation(&format!("canonical-digest-bytes-change-in-round-trip|{name}"), json!({"bytes": hex(&acc), "limbs": limbs.iter().map(|l| l.to_string()).collect::<Vec<_>>()}));
                    }
                },
                Ok(Err(e)) => rep.violation(&format!("canonical-digest-bytes-rejected|{name}"), json!({"bytes": hex(&acc), "error": format!("{e}")})),
                Err(pn) => rep.violation(&format!("{}|digest-decode|{name}", pn.sig()), json!({"bytes": hex(&acc)})),
            }
        }
    }
}

fn proof_case<B, H>(rep: &mut Report, rng: &mut Rng, case: u64, name: &str)
where
    B: BaseFut,
    H: ElementHasher<BaseField = B> + Sync + Send,
{
    let mut gp = params_for(rng, case, 8, cfg!(debug_assertions));
    let shape = case % 6;
    match shape {
        0 => gp.max_width = 255,
        1 => gp.log_n = 3,
        _ => {},
    }
    let mut inst = gen_instance(rng, B::SPEC, &gp);
    match shape {
        2 => inst.opts.queries = 1,
        3 => {
            inst.opts.rem = 255;
            inst.opts.folding = 2;
        },
        4 => {
            let mut s = (*inst.spec).clone();
            s.meta = rng.bytes(65535);
            inst.spec = Arc::new(s);
        },
        _ => {},
    }
    if !inst.opts.valid_for(&inst.spec) {
        rep.count("proof_cases_skipped_invalid_options");
        return;
    }
    let options = inst.opts.build();
    let ctx = json!({"inst": name, "shape": shape, "n": inst.spec.n(), "width": inst.spec.width, "aux": inst.spec.aux.len(), "aux_rands": inst.spec.aux_rands, "meta": inst.spec.meta.len(), "opts": format!("{:?}", inst.opts)});
    let proof = match prove::<B, H>(&inst.spec, &inst.main, options.clone(), None) {
        ProveOutcome::Proof(p) => *p,
        other => {
            rep.inconclusive("prover-did-not-produce-a-proof (C01's business)", json!({"ctx": ctx, "outcome": format!("{other:?}").chars().take(100).collect::<String>()}));
            return;
        },
    };
    rep.distinct_key(format!("proof/{ctx}").as_bytes());
    rep.count(&format!("proof_shapes:{shape}"));
    round_trip::<Proof>(rep, "Proof", "generated", &proof, || ctx.clone());
    round_trip::<Context>(rep, "Context", "generated", &proof.context, || ctx.clone());
    round_trip::<Commitments>(rep, "Commitments", "generated", &proof.commitments, || ctx.clone());
    for q in &proof.trace_queries {
        round_trip::<Queries>(rep, "Queries", "trace", q, || ctx.clone());
    }
    round_trip::<Queries>(rep, "Queries", "constraints", &proof.constraint_queries, || ctx.clone());
    round_trip::<OodFrame>(rep, "OodFrame", "generated", &proof.ood_frame, || ctx.clone());
    round_trip::<FriProof>(rep, "FriProof", "generated", &proof.fri_proof, || ctx.clone());
    // Proof::to_bytes / from_bytes and the verdict of the decoded proof
    rep.evals(1);
    let acc = AcceptableOptions::OptionSet(vec![options]);
    let v1 = verify::<B, H>(proof.clone(), &inst.spec, &acc);
    match guard(|| Proof::from_bytes(&proof.to_bytes())) {
        Ok(Ok(back)) => {
            let v2 = verify::<B, H>(back, &inst.spec, &acc);
            if v1 != v2 || v1 != VerifyOutcome::Accept {
                rep.violation("decoded-proof-verdict-differs", json!({"ctx": ctx, "original": format!("{v1:?}"), "decoded": format!("{v2:?}")}));
            }
        },
        Ok(Err(e)) => rep.violation("own-encoding-rejected|Proof::from_bytes|generated", json!({"ctx": ctx, "error": format!("{e}")})),
        Err(p) => rep.violation(&format!("{}|Proof::from_bytes", p.sig()), ctx.clone()),
    }
    if rep.samples.len() < rep.max_samples {
        rep.sample(ctx);
    }
}

pub fn run(args: &Args) {
    let mut rep = Report::new("C07", "c07",
        "TraceInfo: main width {1,2,3,127,128,253,254,255} x aux {0,1,2,127,253,254} x random elements {0,1,2,128,254,255} x length 2^3..2^40 (thorough every exponent to 2^63) x metadata {0,1,7,255,256,65535 bytes}; ProofOptions: every bound of every field, all 27 enum triples, EVERY partition setting 1..16 x 1..256; Context over 3 fields x kept infos x kept options x constraint counts {1, 2, 2^32-1}; digests of 6 hashers from hashing and from boundary limb encodings; generated proofs at extreme shapes (width up to 255, n = 8, 1 query, remainder degree 255, 65535 metadata bytes, random) with their Commitments / Queries / OodFrame / FriProof / Context: decode(encode(x)) == x, no bytes left, identical re-encoding, same verification verdict; distinct = values");
    let seed = args.seed();
    let thorough = args.thorough();
    let mut rng = Rng::for_case(seed, 700, 0);
    let infos = trace_infos(&mut rep, &mut rng, thorough);
    let opts = proof_options(&mut rep, &mut rng);
    // contexts
    for (i, ti) in infos.iter().enumerate() {
        let o = rng.pick(&opts).clone();
        if (ti.length() as u128) * (o.blowup_factor() as u128) > u32::MAX as u128 {
            continue;
        }
        let nc = *rng.pick(&[1usize, 2, 100, 65536, u32::MAX as usize]);
        let c = match i % 3 {
            0 => Context::new::<f62::BaseElement>(ti.clone(), o, nc),
            1 => Context::new::<f64m::BaseElement>(ti.clone(), o, nc),
            _ => Context::new::<f128::BaseElement>(ti.clone(), o, nc),
        };
        rep.distinct_key(format!("ctx/{i}").as_bytes());
        round_trip(&mut rep, "Context", "constructed", &c, || json!({"trace_info": format!("{:?}", ti).chars().take(120).collect::<String>(), "constraints": nc}));
    }
    type F64 = f64m::BaseElement;
    digests::<Blake3_256<F64>>(&mut rep, &mut rng, "Blake3_256", 32, None);
    digests::<Blake3_192<F64>>(&mut rep, &mut rng, "Blake3_192", 24, None);
    digests::<Sha3_256<F64>>(&mut rep, &mut rng, "Sha3_256", 32, None);
    digests::<Rp64_256>(&mut rep, &mut rng, "Rp64_256", 32, Some((64, vcommon::refarith::P64)));
    digests::<RpJive64_256>(&mut rep, &mut rng, "RpJive64_256", 32, Some((64, vcommon::refarith::P64)));
    digests::<Rp62_248>(&mut rep, &mut rng, "Rp62_248", 31, Some((62, vcommon::refarith::P62)));
    for case in 0..args.budget(66, 2000) {
        let mut rng = Rng::for_case(seed, 701, case);
        stark_dispatch!(proof_case, case, &mut rep, &mut rng, case);
    }
    rep.finish(&args.out());
}
