//! C01 (bundled examples): every example at several sizes x hashers x random valid options must
//! prove, verify, re-verify after a serialization round trip, and reject its perturbed public input.
use examples::{fibonacci, merkle, rescue, rescue_raps, vdf, Example};
use genair::run::{Opts, BATCHING, EXTENSIONS};
use vcommon::{guard, json, Args, Report, Rng, Worker};
use winter_math::fields::{f128, f64 as f64m};
use winterfell::{Proof, ProofOptions};

type H1 = winter_crypto::hashers::Blake3_256<f128::BaseElement>;
type H2 = winter_crypto::hashers::Blake3_192<f128::BaseElement>;
type H3 = winter_crypto::hashers::Sha3_256<f128::BaseElement>;
type S1 = winter_crypto::hashers::Blake3_256<f64m::BaseElement>;
type S2 = winter_crypto::hashers::Rp64_256;
type S3 = winter_crypto::hashers::RpJive64_256;

/// (name, builder, trace length for a size parameter, minimal blowup)
fn build(kind: usize, hasher: usize, size_log: u32, o: ProofOptions) -> (String, Box<dyn Example>, usize) {
    let s = 1usize << size_log;
    macro_rules! pick {
        ($t:ident, $arg:expr) => {
            match hasher % 3 {
                0 => Box::new($t::<H1>::new($arg, o)) as Box<dyn Example>,
                1 => Box::new($t::<H2>::new($arg, o)) as Box<dyn Example>,
                _ => Box::new($t::<H3>::new($arg, o)) as Box<dyn Example>,
            }
        };
    }
    match kind {
        0 => { use fibonacci::fib2::FibExample as T; ("fib2".into(), pick!(T, s * 2), s) },
        1 => { use fibonacci::fib8::Fib8Example as T; ("fib8".into(), pick!(T, s * 8), s) },
        2 => { use fibonacci::mulfib2::MulFib2Example as T; ("mulfib2".into(), pick!(T, s * 2), s) },
        3 => { use fibonacci::mulfib8::MulFib8Example as T; ("mulfib8".into(), pick!(T, s * 8), s) },
        4 => { use vdf::regular::VdfExample as T; ("vdf".into(), pick!(T, s), s) },
        5 => { use vdf::exempt::VdfExample as T; ("vdf-exempt".into(), pick!(T, s - 1), s) },
        6 => { use rescue::RescueExample as T; ("rescue".into(), pick!(T, s / 8), s) },
        7 => { use rescue_raps::RescueRapsExample as T; ("rescue-raps".into(), pick!(T, (s / 8).max(4)), s.max(32)) },
        8 => { use merkle::MerkleExample as T; ("merkle".into(), pick!(T, s / 8 - 1), s) },
        _ => {
            use fibonacci::fib_small::FibExample as T;
            let e = match hasher % 3 {
                0 => Box::new(T::<S1>::new(s * 2, o)) as Box<dyn Example>,
                1 => Box::new(T::<S2>::new(s * 2, o)) as Box<dyn Example>,
                _ => Box::new(T::<S3>::new(s * 2, o)) as Box<dyn Example>,
            };
            ("fib-small-f64".into(), e, s)
        },
    }
}

fn min_blowup(kind: usize) -> usize {
    match kind {
        4 | 5 => 2,      // degree 3
        6 | 7 | 8 => 4,  // degree 3 (+ cycle) .. 5
        _ => 2,
    }
}

pub fn run(args: &Args) {
    let mut rep = Report::new("C01", "c01_examples",
        "the bundled examples (fib2, fib8, mulfib2, mulfib8, fib_small over f64, vdf, vdf with exemptions, rescue, rescue_raps with an auxiliary segment, merkle) at trace lengths 2^3..2^9 x 3 hashers x random valid options (3 extensions, 9 batching pairs, blowup up to 64, folding 2..16, remainder 0..255, 1..255 queries, grinding 0..8, partitions): prove, Example::verify, verify after to_bytes/from_bytes, and verify_with_wrong_inputs must fail; distinct = (example, size, hasher, options)");
    let seed = args.seed();
    let mut w = Worker::new(args, 60);
    for case in w.from..w.to {
        if !w.start(case, &mut rep) {
            continue;
        }
        let mut rng = Rng::for_case(seed, 150, case);
        let kind = (case % 10) as usize;
        let hasher = rng.usize(3);
        let size_log = match kind { 8 => rng.range(5, 6), 6 | 7 => rng.range(5, 8), _ => rng.range(3, 9) } as u32;
        let mb = min_blowup(kind);
        let lb = mb.trailing_zeros() as usize;
        // learn the trace length from a probe proof with safe options (the same ones the repository's
        // own tests use), then draw options whose FRI geometry is realisable for that length
        let n = match guard(|| {
            let (_, probe, _) = build(kind, hasher, size_log, ProofOptions::new(28, 8, 0, EXTENSIONS[0], 4, 31, BATCHING[0], BATCHING[0]));
            probe.prove().trace_info().length()
        }) {
            Ok(n) => n,
            Err(p) => {
                rep.inconclusive("example-probe-proof-failed", json!({"kind": kind, "size_log": size_log, "panic": p.sig()}));
                continue;
            },
        };
        let opts = loop {
            let o = Opts {
                queries: *rng.pick(&[1usize, 2, 7, 28, 64, 255]),
                blowup: 1 << rng.range(lb, 6),
                grinding: *rng.pick(&[0u32, 0, 4, 8]),
                ext: if kind == 9 { rng.usize(3) as u8 } else { rng.usize(2) as u8 }, // f128 has no cubic extension
                folding: 1 << rng.range(1, 4),
                rem: (1 << rng.usize(9)) - 1,
                bc: rng.usize(3) as u8,
                bd: rng.usize(3) as u8,
                partitions: if rng.chance(1, 3) { rng.range(2, 8) } else { 1 },
                hash_rate: if rng.chance(1, 3) { *rng.pick(&[2usize, 4, 8]) } else { 1 },
            };
            let o = Opts { queries: o.queries.min(n * o.blowup - 1), ..o };
            if o.fri_ok(n) && n * o.blowup <= 1 << 16 {
                break o;
            }
        };
        let (name, ex, _) = match guard(|| build(kind, hasher, size_log, opts.build())) {
            Ok(x) => x,
            Err(p) => {
                rep.violation(&format!("{}|example-construction", p.sig()), json!({"kind": kind, "size_log": size_log, "opts": format!("{opts:?}")}));
                continue;
            },
        };
        let ctx = json!({"example": name, "n": n, "hasher": hasher, "opts": format!("{opts:?}")});
        rep.case(format!("{ctx}").as_bytes(), true);
        rep.count(&format!("example:{name}"));
        let proof = match guard(|| ex.prove()) {
            Ok(p) => p,
            Err(p) => {
                if p.message.contains("blowup factor too small") {
                    rep.count("skipped:blowup-below-example-minimum");
                } else {
                    rep.violation(&format!("{}|example-prover|{name}", p.sig()), ctx.clone());
                }
                continue;
            },
        };
        match guard(|| ex.verify(proof.clone())) {
            Ok(Ok(())) => {},
            Ok(Err(e)) => {
                rep.violation(&format!("honest-example-proof-rejected|{name}|{}", format!("{e:?}").split('(').next().unwrap_or("?")), json!({"ctx": ctx, "error": format!("{e:?}")}));
                continue;
            },
            Err(p) => {
                rep.violation(&format!("{}|example-verifier|{name}", p.sig()), ctx.clone());
                continue;
            },
        }
        match guard(|| Proof::from_bytes(&proof.to_bytes()).map(|p| ex.verify(p))) {
            Ok(Ok(Ok(()))) => {},
            other => rep.violation(&format!("decoded-example-proof-not-accepted|{name}"), json!({"ctx": ctx, "outcome": format!("{other:?}").chars().take(120).collect::<String>()})),
        }
        rep.evals(1);
        match guard(|| ex.verify_with_wrong_inputs(proof)) {
            Ok(Err(_)) => rep.count("wrong_public_input_rejected"),
            Ok(Ok(())) => rep.violation(&format!("example-proof-accepted-with-wrong-public-input|{name}"), ctx.clone()),
            Err(p) => rep.violation(&format!("{}|example-verifier-wrong-input|{name}", p.sig()), ctx.clone()),
        }
        if rep.samples.len() < rep.max_samples {
            rep.sample(ctx);
        }
    }
    rep.finish(&args.out());
}
