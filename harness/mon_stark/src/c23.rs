//! C23: transition divisors, degree bounds, composition column counts and periodic column
//! polynomials are consistent with their definitions.
use std::sync::Arc;

use genair::run::gen_instance;
use genair::{GenAir, GenPub, GenTrace};
use vcommon::refarith::{mulm, poly_eval, powm, subm};
use vcommon::{guard, json, Args, Report, Rng};
use vwf::{BaseFut, Fut};
use winter_air::{AirContext, BatchingMethod, ConstraintDivisor, FieldExtension, ProofOptions, TraceInfo, TransitionConstraintDegree};
use winter_math::fields::{f128, f62, f64 as f64m, QuadExtension};
use winter_math::FieldElement;
use winterfell::{Air, Trace};

use crate::c01::params_for;

/// a constructor refusing its arguments (an assertion in the context module) is an allowed
/// outcome; arithmetic or indexing panics are not refusals
fn refusal(pn: &vcommon::PanicInfo) -> bool {
    pn.rel_file().ends_with("air/context.rs") && !pn.message.contains("attempt to") && !pn.message.contains("out of bounds") && !pn.message.contains("out of range")
}

/// divisor for every (n, e): zero set, degree, value at random points vs the definition
fn divisors<B: BaseFut + Fut<B = B>>(rep: &mut Report, rng: &mut Rng, max_log_n: u32)
where
    QuadExtension<B>: Fut<B = B> + FieldElement<BaseField = B>,
{
    let p = B::SPEC.p;
    for log_n in 3..=max_log_n {
        let n = 1usize << log_n;
        let g = B::get_root_of_unity(log_n);
        let gi = g.int();
        // trace domain points as integers, by repeated reference multiplication
        let mut pts = vec![1u128; n];
        for s in 1..n {
            pts[s] = mulm(pts[s - 1], gi, p);
        }
        let es: Vec<usize> = if n <= 64 { (1..=n / 2 + 1).collect() } else { vec![1, 2, 3, 7, n / 4, n / 2, n / 2 + 1] };
        for e in es {
            rep.evals(1);
            rep.distinct_key(format!("div/{}/{n}/{e}", B::SPEC.name).as_bytes());
            let ctx = json!({"field": B::SPEC.name, "n": n, "exemptions": e});
            let d = match guard(|| ConstraintDivisor::<B>::from_transition(n, e)) {
                Ok(d) => d,
                Err(pn) => {
                    rep.violation(&format!("{}|from_transition", pn.sig()), ctx);
                    continue;
                },
            };
            if d.degree() != n - e {
                rep.violation("transition-divisor-degree", json!({"ctx": ctx, "degree": d.degree()}));
            }
            // zero exactly on steps < n - e: the numerator x^n - 1 vanishes on the whole domain
            // and the exemptions divide the last e points out, so the quotient is evaluated
            // through its definition prod_{s < n-e} (x - g^s) at the domain points
            for s in 0..n {
                let x = B::from_int(pts[s]);
                let num_zero = (x.exp((n as u32).into()) - B::ONE) == B::ZERO;
                let exempt_hit = d.exemptions().iter().any(|z| *z == x);
                // definition: vanishes iff s < n - e
                let want_zero = s < n - e;
                let got_zero = num_zero && !exempt_hit;
                if want_zero != got_zero || !num_zero {
                    rep.violation("transition-divisor-zero-set", json!({"ctx": ctx, "step": s, "numerator_zero": num_zero, "exempted": exempt_hit}));
                    break;
                }
            }
            // value at random base and extension points vs prod_{s<n-e} (x - g^s)
            if n <= 256 {
                for _ in 0..2 {
                    let xv = rng.below128(p);
                    let mut want = 1u128;
                    for s in 0..n - e {
                        want = mulm(want, subm(xv, pts[s], p), p);
                    }
                    let got = d.evaluate_at(B::from_int(xv)).int();
                    if d.exemptions().iter().any(|z| z.int() == xv) {
                        rep.count("base_point_is_an_exemption_point_skipped");
                    } else if got != want {
                        rep.violation("transition-divisor-value", json!({"ctx": ctx, "x": xv.to_string()}));
                    }
                    // extension point: compare through the extension reference
                    let (xe, xr) = <QuadExtension<B> as Fut>::gen(rng);
                    let esq = <QuadExtension<B> as Fut>::spec();
                    let mut w = esq.one();
                    for s in 0..n - e {
                        w = esq.mul(w, esq.sub(xr, [pts[s], 0, 0]));
                    }
                    // at an exempted trace-domain point the divisor's rational form
                    // (x^n - 1) / prod (x - exemption) is 0/0: evaluate_at is only meaningful off
                    // those points (the biased generator does produce -1 = g^(n/2) and 1)
                    if d.exemptions().iter().any(|z| QuadExtension::<B>::from(*z) == xe) {
                        rep.count("extension_point_is_an_exemption_point_skipped");
                    } else if d.evaluate_at(xe).to_ref() != w {
                        rep.violation("transition-divisor-value-extension", json!({"ctx": ctx, "x": format!("{xr:?}")}));
                    }
                }
            }
        }
    }
}

/// documented degree formulas and column sufficiency over every accepted context
fn degrees(rep: &mut Report, max_log_n: u32, max_base: usize) {
    type B = f64m::BaseElement;
    for log_n in 3..=max_log_n {
        let n = 1usize << log_n;
        let cycle_choices: Vec<usize> = (1..=log_n).map(|k| 1usize << k).collect();
        let mut cycle_sets: Vec<Vec<usize>> = vec![vec![]];
        for &a in &cycle_choices {
            cycle_sets.push(vec![a]);
            for &b in &cycle_choices {
                if b >= a {
                    cycle_sets.push(vec![a, b]);
                }
            }
        }
        cycle_sets.push(vec![2, 2, 2]);
        cycle_sets.push(vec![n, n, n]);
        for base in 1..=max_base {
            for cy in &cycle_sets {
                rep.evals(1);
                rep.distinct_key(format!("deg/{n}/{base}/{cy:?}").as_bytes());
                let ctx = json!({"n": n, "base": base, "cycles": cy});
                let d = if cy.is_empty() { TransitionConstraintDegree::new(base) } else { TransitionConstraintDegree::with_cycles(base, cy.clone()) };
                // definition: product of `base` trace polynomials (degree n-1) and one periodic
                // polynomial per cycle (a degree c-1 polynomial in x^(n/c))
                let want_eval = base * (n - 1) + cy.iter().map(|c| (c - 1) * (n / c)).sum::<usize>();
                if d.get_evaluation_degree(n) != want_eval {
                    rep.violation("evaluation-degree-differs-from-definition", json!({"ctx": ctx, "got": d.get_evaluation_degree(n), "definition": want_eval}));
                }
                let want_blowup = (base + cy.len() - 1).next_power_of_two().max(2);
                if d.min_blowup_factor() != want_blowup {
                    rep.violation("min-blowup-differs-from-documented-formula", json!({"ctx": ctx, "got": d.min_blowup_factor(), "documented": want_blowup}));
                }
                // sufficiency: the quotient by the transition divisor must be determined by its
                // evaluations over the constraint evaluation domain
                if d.min_blowup_factor() * n < want_eval - (n - 1) + 1 {
                    rep.violation("min-blowup-too-small-for-quotient-degree", ctx.clone());
                }
                // contexts: every exemption count the context accepts
                let blowup = d.min_blowup_factor().max(2);
                if blowup > 128 {
                    continue;
                }
                let options = ProofOptions::new(1, blowup, 0, FieldExtension::None, 2, 1, BatchingMethod::Linear, BatchingMethod::Linear);
                let es: Vec<usize> = if n <= 32 { (1..=n / 2 + 1).collect() } else { vec![1, 2, 3, n / 2 + 1] };
                for e in es {
                    let c = guard(|| {
                        let c = AirContext::<B>::new(TraceInfo::new(1, n), vec![d.clone()], 1, options.clone());
                        if e > 1 { c.set_num_transition_exemptions(e) } else { c }
                    });
                    rep.evals(1);
                    match c {
                        Ok(c) => {
                            rep.count("contexts_accepted");
                            let cols = c.num_constraint_composition_columns();
                            let comp_degree = want_eval.saturating_sub(n - e);
                            if cols * n < comp_degree + 1 {
                                rep.violation("too-few-composition-columns", json!({"ctx": ctx, "exemptions": e, "columns": cols, "composition_degree": comp_degree}));
                            }
                            if cols > 1 && (cols - 1) * n >= comp_degree + 1 {
                                rep.count("more_columns_than_needed");
                            }
                            if c.ce_domain_size() < comp_degree + 1 {
                                rep.violation("evaluation-domain-too-small-for-composition-degree", json!({"ctx": ctx, "exemptions": e}));
                            }
                        },
                        Err(pn) => {
                            rep.count("contexts_refused");
                            if !refusal(&pn) {
                                rep.violation(&format!("{}|context", pn.sig()), json!({"ctx": ctx, "exemptions": e}));
                            }
                        },
                    }
                }
                // multi-segment contexts: the declaration sits on the auxiliary segment (main
                // constraint of degree 1) or on the main segment (auxiliary constraint of degree
                // 1); the composition columns must hold the composition polynomial either way
                for (where_, main_d, aux_d) in [("aux", TransitionConstraintDegree::new(1), d.clone()), ("main", d.clone(), TransitionConstraintDegree::new(1))] {
                    for e in [1usize, 2, 3] {
                        let c = guard(|| {
                            let c = AirContext::<B>::new_multi_segment(TraceInfo::new_multi_segment(1, 1, 1, n, vec![]), vec![main_d.clone()], vec![aux_d.clone()], 1, 1, options.clone());
                            if e > 1 { c.set_num_transition_exemptions(e) } else { c }
                        });
                        rep.evals(1);
                        match c {
                            Ok(c) => {
                                rep.count("multi_segment_contexts_accepted");
                                let cols = c.num_constraint_composition_columns();
                                let comp_degree = want_eval.saturating_sub(n - e);
                                if cols * n < comp_degree + 1 {
                                    rep.violation("too-few-composition-columns", json!({"ctx": ctx, "exemptions": e, "columns": cols, "composition_degree": comp_degree, "highest_degree_on": where_}));
                                }
                                if c.ce_domain_size() < comp_degree + 1 {
                                    rep.violation("evaluation-domain-too-small-for-composition-degree", json!({"ctx": ctx, "exemptions": e, "highest_degree_on": where_}));
                                }
                            },
                            Err(pn) => {
                                rep.count("contexts_refused");
                                if !refusal(&pn) {
                                    rep.violation(&format!("{}|context", pn.sig()), json!({"ctx": ctx, "exemptions": e, "highest_degree_on": where_}));
                                }
                            },
                        }
                    }
                }
            }
        }
    }
}

/// periodic column polynomials reproduce values[s mod c] at every trace step
fn periodic<B: BaseFut>(rep: &mut Report, rng: &mut Rng, case: u64, max_log_n: u32) {
    let mut gp = params_for(rng, case, max_log_n, false);
    gp.periodic = true;
    let inst = gen_instance(rng, B::SPEC, &gp);
    let spec = &inst.spec;
    let (n, p) = (spec.n(), spec.p());
    let trace = GenTrace::<B>::new(spec, &inst.main);
    let air = GenAir::<B>::new(trace.info().clone(), GenPub::new(Arc::clone(spec)), inst.opts.build());
    let polys = match guard(|| air.get_periodic_column_polys()) {
        Ok(p) => p,
        Err(pn) => {
            rep.violation(&format!("{}|get_periodic_column_polys", pn.sig()), json!({"cycles": spec.periodic.iter().map(|c| c.len()).collect::<Vec<_>>()}));
            return;
        },
    };
    let g = air.trace_domain_generator().int();
    let es = B::SPEC.ext(1).unwrap();
    for (i, poly) in polys.iter().enumerate() {
        let c = spec.periodic[i].len();
        rep.evals(1);
        rep.distinct_key(format!("per/{}/{n}/{c}/{case}", B::SPEC.name).as_bytes());
        rep.count(&format!("periodic_cycle_log2:{}", c.trailing_zeros()));
        if poly.len() != c {
            rep.violation("periodic-poly-length", json!({"n": n, "cycle": c, "len": poly.len()}));
            continue;
        }
        let coeffs: Vec<[u128; 3]> = poly.iter().map(|v| [v.int(), 0, 0]).collect();
        let mut x = 1u128;
        for s in 0..n {
            let xp = powm(x, (n / c) as u128, p);
            let got = poly_eval(&es, &coeffs, [xp, 0, 0])[0];
            if got != spec.periodic[i][s % c] {
                rep.violation("periodic-poly-does-not-reproduce-cycle-values", json!({"field": B::SPEC.name, "n": n, "cycle": c, "step": s}));
                break;
            }
            x = mulm(x, g, p);
        }
    }
}

pub fn run(args: &Args) {
    let mut rep = Report::new("C23", "c23",
        "(1) ConstraintDivisor::from_transition(n, e) for n = 8..2^K and every e <= n/2+1 (n <= 64; 7 values above), 3 fields: degree n-e, zero exactly on steps < n-e, value at random base and quadratic-extension points = prod_{s<n-e}(x-g^s); (2) every degree declaration base 1..B x cycle multisets (<= 2 cycles from all powers of two <= n, plus triples), n = 8..2^K: evaluation degree vs definition, min blowup vs documented formula and vs quotient degree; every context the constructor and set_num_transition_exemptions accept (single-segment, and multi-segment with the declaration on the auxiliary or on the main segment): columns * n >= composition degree + 1 and evaluation domain > composition degree; (3) periodic column polynomials of random GenAir instances reproduce values[s mod c] at every step; distinct = (kind, parameters)");
    let seed = args.seed();
    let thorough = args.thorough();
    let k = args.u64("maxlogn", if thorough { 11 } else { 9 }) as u32;
    let mut rng = Rng::for_case(seed, 2300, 0);
    divisors::<f64m::BaseElement>(&mut rep, &mut rng, k);
    divisors::<f62::BaseElement>(&mut rep, &mut rng, k.min(9));
    divisors::<f128::BaseElement>(&mut rep, &mut rng, k.min(9));
    degrees(&mut rep, if thorough { 8 } else { 6 }, if thorough { 16 } else { 9 });
    for case in 0..args.budget(300, 6000) {
        let mut rng = Rng::for_case(seed, 2301, case);
        match case % 3 {
            0 => periodic::<f64m::BaseElement>(&mut rep, &mut rng, case, 10),
            1 => periodic::<f62::BaseElement>(&mut rep, &mut rng, case, 10),
            _ => periodic::<f128::BaseElement>(&mut rep, &mut rng, case, 10),
        }
    }
    rep.sample(json!({"divisor": "from_transition(64, 3) over f64: degree 61, zero on steps 0..60"}));
    rep.finish(&args.out());
}
