//! C28: trace / composition LDEs and row commitments match their definitions.
use vcommon::refarith::{mulm, poly_eval, powm, Ext};
use vcommon::{fnv, guard, json, Args, Report, Rng};
use vwf::{BaseFut, Fut};
use winter_crypto::hashers::{Blake3_192, Blake3_256, Rp62_248, Rp64_256, RpJive64_256, Sha3_256};
use winter_crypto::{Digest, ElementHasher, MerkleTree};
use winter_math::fields::{f128, f62, f64 as f64m, CubeExtension, QuadExtension};
use winter_math::{fft, FieldElement, StarkField};
use winterfell::matrix::{ColMatrix, RowMatrix};
use winterfell::{PartitionOptions, StarkDomain};

type Digests = std::collections::BTreeMap<String, String>;

fn ref_partition_size(np: usize, hr: usize, ext_degree: usize, cols: usize) -> usize {
    if np == 1 { cols } else { cols.div_ceil(np).max(hr / ext_degree) }
}

/// row digest per the documented partition rule (the one the verifier applies to opened rows)
fn ref_row_digest<E: FieldElement, H: ElementHasher<BaseField = E::BaseField>>(row: &[E], psize: usize) -> H::Digest {
    if psize == row.len() {
        H::hash_elements(row)
    } else {
        let parts: Vec<H::Digest> = row.chunks(psize).map(|c| H::hash_elements(c)).collect();
        H::merge_many(&parts)
    }
}

fn rows_to_check(rng: &mut Rng, domain: usize) -> Vec<usize> {
    if domain <= 256 {
        (0..domain).collect()
    } else {
        let mut v: Vec<usize> = (0..40).map(|_| rng.usize(domain)).collect();
        v.extend([0, 1, domain / 2 - 1, domain / 2, domain - 2, domain - 1, 1023.min(domain - 1), 1024.min(domain - 1)]);
        v
    }
}

#[allow(clippy::too_many_arguments)]
fn one<E, H>(rep: &mut Report, digests: &mut Digests, rng: &mut Rng, case: u64, max_log: u32, name: &str)
where
    E: Fut + FieldElement<BaseField = <E as Fut>::B>,
    H: ElementHasher<BaseField = <E as Fut>::B>,
{
    let p = E::B::SPEC.p;
    let es = E::spec();
    let log_n = rng.range(3, max_log as usize) as u32;
    let n = 1usize << log_n;
    let blowup = 1usize << rng.range(1, 4);
    let domain = n * blowup;
    let cols = match rng.usize(4) { 0 => rng.range(1, 3), 1 => *rng.pick(&[7usize, 8, 9, 15, 16, 17]), _ => rng.range(1, 20) };
    let seg = *rng.pick(&[1usize, 2, 4, 8]);
    let ctx = json!({"inst": name, "case": case, "poly_size": n, "blowup": blowup, "columns": cols, "segment_width": seg});
    rep.case(format!("{name}/{n}/{blowup}/{cols}/{seg}").as_bytes(), true);
    rep.count(&format!("segment_width:{seg}"));
    rep.count(&format!("ext_degree:{}", E::DEG));
    if cols * E::DEG % seg != 0 {
        rep.count("columns_not_multiple_of_segment_width");
    }
    if domain > 1024 {
        rep.count("domains_above_1024");
    }
    // coefficient columns
    let (polys_e, polys_r): (Vec<Vec<E>>, Vec<Vec<Ext>>) = (0..cols).map(|_| (0..n).map(|_| E::gen(rng)).unzip()).unzip();
    let polys = ColMatrix::new(polys_e);
    let offset_v = if rng.bool() { E::B::GENERATOR.int() } else { 1 + rng.below128(p - 1) };
    let offset = E::B::from_int(offset_v);
    let dom = StarkDomain::from_twiddles(fft::get_twiddles::<E::B>(n), blowup, offset);
    let g = E::B::get_root_of_unity(domain.ilog2()).int();
    let eval = |which: u8| {
        guard(|| match (which, seg) {
            (0, 1) => RowMatrix::<E>::evaluate_polys::<1>(&polys, blowup),
            (0, 2) => RowMatrix::<E>::evaluate_polys::<2>(&polys, blowup),
            (0, 4) => RowMatrix::<E>::evaluate_polys::<4>(&polys, blowup),
            (0, _) => RowMatrix::<E>::evaluate_polys::<8>(&polys, blowup),
            (_, 1) => RowMatrix::<E>::evaluate_polys_over::<1>(&polys, &dom),
            (_, 2) => RowMatrix::<E>::evaluate_polys_over::<2>(&polys, &dom),
            (_, 4) => RowMatrix::<E>::evaluate_polys_over::<4>(&polys, &dom),
            (_, _) => RowMatrix::<E>::evaluate_polys_over::<8>(&polys, &dom),
        })
    };
    let rows = rows_to_check(rng, domain);
    let mut kept: Option<RowMatrix<E>> = None;
    for which in [0u8, 1] {
        let (fname, off) = if which == 0 { ("evaluate_polys", E::B::GENERATOR.int()) } else { ("evaluate_polys_over", offset_v) };
        rep.evals(1);
        let rm = match eval(which) {
            Ok(m) => m,
            Err(pn) => {
                rep.violation(&format!("{}|{fname}", pn.sig()), ctx.clone());
                return;
            },
        };
        if rm.num_rows() != domain || rm.num_cols() != cols {
            rep.violation(&format!("lde-shape|{fname}"), json!({"ctx": ctx, "rows": rm.num_rows(), "cols": rm.num_cols()}));
            return;
        }
        'rows: for &r in &rows {
            let x: Ext = [mulm(off, powm(g, r as u128, p), p), 0, 0];
            let row = rm.row(r);
            for c in 0..cols {
                let want = poly_eval(&es, &polys_r[c], x);
                if row[c].to_ref() != want || rm.get(c, r).to_ref() != want {
                    rep.violation(&format!("lde-value-differs-from-polynomial-at-domain-point|{fname}|N{seg}"), json!({"ctx": ctx, "row": r, "column": c}));
                    break 'rows;
                }
            }
        }
        digests.insert(format!("{name}/{fname}/{case}-{n}-{blowup}-{cols}-{seg}"), format!("{:x}", fnv(&rm.data().iter().flat_map(|e| e.int().to_le_bytes()).collect::<Vec<u8>>())));
        if which == 1 {
            kept = Some(rm);
        }
    }
    let rm = kept.unwrap();
    // column-major route must agree with the row-major one
    rep.evals(1);
    match guard(|| polys.evaluate_columns_over(&dom)) {
        Ok(cm) => {
            if (0..cols).any(|c| (0..domain).any(|r| cm.get(c, r) != rm.get(c, r))) {
                rep.violation("column-major-lde-differs-from-row-major", ctx.clone());
            }
            // ColMatrix::commit_to_rows = tree over hash_elements(row)
            let t: MerkleTree<H> = cm.commit_to_rows::<H, MerkleTree<H>>();
            let leaves: Vec<H::Digest> = (0..domain).map(|r| H::hash_elements(rm.row(r))).collect();
            if *t.root() != *MerkleTree::<H>::new(leaves).unwrap().root() {
                rep.violation("col-matrix-row-commitment-differs-from-definition", ctx.clone());
            }
        },
        Err(pn) => rep.violation(&format!("{}|evaluate_columns_over", pn.sig()), ctx.clone()),
    }
    // interpolation reproduces the evaluations: treat the coefficient matrix as values
    rep.evals(1);
    match guard(|| polys.interpolate_columns()) {
        Ok(ip) => {
            let gt = E::B::get_root_of_unity(log_n).int();
            let steps: Vec<usize> = if n <= 64 { (0..n).collect() } else { (0..24).map(|_| rng.usize(n)).chain([0, n - 1]).collect() };
            'outer: for c in 0..cols {
                let coeffs: Vec<Ext> = ip.get_column(c).iter().map(|e| e.to_ref()).collect();
                for &s in &steps {
                    if poly_eval(&es, &coeffs, [powm(gt, s as u128, p), 0, 0]) != polys_r[c][s] {
                        rep.violation("interpolated-column-does-not-reproduce-values", json!({"ctx": ctx, "column": c, "step": s}));
                        break 'outer;
                    }
                }
            }
        },
        Err(pn) => rep.violation(&format!("{}|interpolate_columns", pn.sig()), ctx.clone()),
    }
    // row commitments under partition options
    let mut pos = vec![(1usize, 1usize)];
    for _ in 0..3 {
        pos.push((rng.range(1, 16), *rng.pick(&[1usize, 2, 3, 4, 7, 8, 12, 16, 64, 255])));
    }
    for (np, hr) in pos {
        rep.evals(1);
        rep.count(if np == 1 { "commitments_unpartitioned" } else { "commitments_partitioned" });
        let po = PartitionOptions::new(np, hr);
        let psize = ref_partition_size(np, hr, E::DEG, cols);
        if psize == 0 {
            continue;
        }
        let leaves: Vec<H::Digest> = (0..domain).map(|r| ref_row_digest::<E, H>(rm.row(r), psize)).collect();
        let want = *MerkleTree::<H>::new(leaves).unwrap().root();
        match guard(|| rm.commit_to_rows::<H, MerkleTree<H>>(po)) {
            Ok(t) => {
                if *t.root() != want {
                    rep.violation(&format!("row-commitment-differs-from-partition-rule|{}", if np == 1 { "unpartitioned" } else { "partitioned" }), json!({"ctx": ctx, "partitions": np, "hash_rate": hr, "partition_size": psize}));
                }
                digests.insert(format!("{name}/commit/{case}-{n}-{blowup}-{cols}-{seg}-{np}-{hr}"), vcommon::hex(&t.root().as_bytes()[..16]));
            },
            Err(pn) => rep.violation(&format!("{}|commit_to_rows", pn.sig()), json!({"ctx": ctx, "partitions": np, "hash_rate": hr})),
        }
    }
    if rep.samples.len() < rep.max_samples {
        rep.sample(ctx);
    }
}

pub fn run(args: &Args) {
    let mut rep = Report::new("C28", "c28",
        "random coefficient matrices (1..20 columns incl. counts not divisible by the segment width, polynomial size 2^3..2^9 (thorough 2^11), blowup 2..16, segment width N in {1,2,4,8}, base / quadratic / cubic elements over 3 fields, generator and random domain offsets): RowMatrix::evaluate_polys and evaluate_polys_over rows vs each column polynomial evaluated by reference arithmetic at offset*g^row (all rows for domains <= 256, 48 rows above incl. around 1024); ColMatrix::evaluate_columns_over equal to the row-major result; interpolate_columns reproduces the values; RowMatrix::commit_to_rows root for (1,1) and 3 random partition settings and ColMatrix::commit_to_rows root vs a Merkle tree over row digests computed by the documented partition rule; output digests for cross-build/thread comparison; distinct = (instantiation, shape)");
    let seed = args.seed();
    let n = args.budget(240, 6000);
    let max_log = args.u64("maxlog", if args.thorough() { 11 } else { 9 }) as u32;
    let mut digests = Digests::new();
    type F64 = f64m::BaseElement;
    type F62 = f62::BaseElement;
    type F128 = f128::BaseElement;
    for case in 0..n {
        let mut rng = Rng::for_case(seed, 2800, case);
        let (r, d, g) = (&mut rep, &mut digests, &mut rng);
        match case % 10 {
            0 => one::<F64, Blake3_256<F64>>(r, d, g, case, max_log, "f64/Blake3_256"),
            1 => one::<QuadExtension<F64>, Rp64_256>(r, d, g, case, max_log.min(8), "f64^2/Rp64_256"),
            2 => one::<CubeExtension<F64>, Blake3_192<F64>>(r, d, g, case, max_log, "f64^3/Blake3_192"),
            3 => one::<F128, Sha3_256<F128>>(r, d, g, case, max_log, "f128/Sha3_256"),
            4 => one::<QuadExtension<F128>, Blake3_256<F128>>(r, d, g, case, max_log, "f128^2/Blake3_256"),
            5 => one::<F62, Rp62_248>(r, d, g, case, max_log.min(8), "f62/Rp62_248"),
            6 => one::<QuadExtension<F62>, Blake3_256<F62>>(r, d, g, case, max_log, "f62^2/Blake3_256"),
            7 => one::<CubeExtension<F62>, Sha3_256<F62>>(r, d, g, case, max_log, "f62^3/Sha3_256"),
            8 => one::<QuadExtension<F64>, RpJive64_256>(r, d, g, case, max_log.min(8), "f64^2/RpJive64_256"),
            _ => one::<QuadExtension<F64>, Blake3_256<F64>>(r, d, g, case, max_log, "f64^2/Blake3_256"),
        }
    }
    rep.extra.insert("digests".into(), json!(digests));
    rep.finish(&args.out());
}
