//! C05: deserializing and verifying untrusted proofs never crashes or hangs. Worker stage: every
//! case decodes / verifies one hostile input under panic capture; process death (abort, signal)
//! and hangs are attributed to the case in flight by the driver.
use genair::run::{verify, VerifyOutcome};
use vcommon::{guard, hex, json, Args, Report, Rng, Value, Worker};
use vwf::BaseFut;
use winter_air::proof::{Commitments, Context, OodFrame, Proof, Queries};
use winter_air::{ProofOptions, TraceInfo};
use winter_crypto::hashers::{Blake3_256, Rp64_256, Sha3_256};
use winter_crypto::{BatchMerkleProof, ElementHasher, MerkleTree};
use winter_fri::FriProof;
use winter_math::fields::{f128, f62, f64 as f64m, CubeExtension, QuadExtension};
use winter_math::FieldElement;
use winter_utils::{Deserializable, SliceReader};
use winterfell::AcceptableOptions;

use crate::pool::{make, Honest};
use crate::replay::ood_patch;

const INTERESTING: [u8; 14] = [0, 1, 2, 3, 7, 8, 0x3f, 0x40, 0x41, 0x7f, 0x80, 0x81, 0xfe, 0xff];

/// structure-aware mutation of proof bytes; returns (bytes, description)
pub fn mutate(rng: &mut Rng, h: &Honest, other: Option<&Honest>) -> (Vec<u8>, String) {
    let mut b = h.bytes.clone();
    let comps = &h.layout;
    let kind = rng.usize(18);
    let pick_comp = |rng: &mut Rng| {
        let i = rng.usize(comps.len() - 1);
        (comps[i].0, comps[i].1, comps[i + 1].1)
    };
    match kind {
        0..=4 => {
            // a header byte of a component (lengths, counts, exponents, tags live in the first bytes)
            let (name, s, e) = pick_comp(rng);
            let span = (e - s).min(if name == "context" { e - s } else { 14 }).max(1);
            let at = s + rng.usize(span);
            let old = b[at];
            let v = match rng.usize(5) {
                0 => *rng.pick(&INTERESTING),
                1 => old.wrapping_add(1),
                2 => old.wrapping_sub(1),
                3 => old ^ (1 << rng.usize(8)),
                _ => rng.u8(),
            };
            b[at] = v;
            (b, format!("header-byte:{name}+{}:{old:#x}->{v:#x}", at - s))
        },
        5 => {
            // several header bytes
            let mut d = String::from("multi-header:");
            for _ in 0..2 + rng.usize(3) {
                let (name, s, e) = pick_comp(rng);
                let at = s + rng.usize((e - s).min(12).max(1));
                b[at] = *rng.pick(&INTERESTING);
                d.push_str(&format!("{name}+{} ", at - s));
            }
            (b, d)
        },
        6 => {
            // a maximal / huge variable-length integer spliced in at a component start
            let (name, s, _) = pick_comp(rng);
            let at = s + rng.usize(3);
            let huge: Vec<u8> = match rng.usize(3) {
                0 => vec![0x00, 0xff, 0xff, 0xff, 0xff, 0xff, 0xff, 0xff, 0xff],
                1 => vec![0x80, 0xff, 0xff, 0xff, 0xff, 0xff, 0xff, 0x7f],
                _ => vec![0xfe, 0xff, 0xff, 0xff],
            };
            let at = at.min(b.len());
            b.splice(at..at, huge);
            (b, format!("huge-length-inserted:{name}"))
        },
        7 => {
            let cut = rng.usize(b.len() + 1);
            b.truncate(cut);
            (b, "truncated".into())
        },
        8 => {
            // delete or duplicate a small range at a component boundary
            let (name, s, e) = pick_comp(rng);
            let len = rng.usize(6).min(e - s);
            if rng.bool() {
                b.drain(s..s + len);
                (b, format!("bytes-deleted:{name}:{len}"))
            } else {
                let dup: Vec<u8> = b[s..s + len].to_vec();
                b.splice(s..s, dup);
                (b, format!("bytes-duplicated:{name}:{len}"))
            }
        },
        9 => {
            // random byte anywhere
            let at = rng.usize(b.len());
            b[at] = rng.u8();
            (b, "random-byte".into())
        },
        14..=16 if !h.nested.is_empty() => {
            // a nested header: opening-proof depth, node-vector count, inner length prefix,
            // frame-size byte, FRI layer header, remainder length, partition exponent
            let (name, at) = h.nested[rng.usize(h.nested.len())].clone();
            let old = b[at];
            let v = match rng.usize(4) {
                0 => *rng.pick(&INTERESTING),
                1 => *rng.pick(&[63u8, 64, 65, 127, 128, 200, 255]),
                2 => old.wrapping_add(1),
                _ => old ^ (1 << rng.usize(8)),
            };
            b[at] = v;
            (b, format!("nested-header:{name}:{old:#x}->{v:#x}"))
        },
        14..=16 => (b, "unchanged".into()),
        17 => {
            // an out-of-domain frame section whose frame-size byte is changed TOGETHER with its
            // payload (length prefix consistent): frame size v, v copies of one frame row
            match h.nested.iter().find(|(n, _)| n == "ood_frame.trace-frame-size").map(|(_, at)| *at) {
                Some(tfs) if tfs >= 2 && tfs + 1 < b.len() => {
                    let s0 = tfs - 2;
                    let tl = u16::from_le_bytes([b[s0], b[s0 + 1]]) as usize;
                    let c0 = s0 + 2 + tl;
                    let constraint = rng.bool();
                    let (sec, len) = if constraint {
                        match b.get(c0..c0 + 2) {
                            Some(x) => (c0, u16::from_le_bytes([x[0], x[1]]) as usize),
                            None => (s0, tl),
                        }
                    } else {
                        (s0, tl)
                    };
                    if len < 3 || sec + 2 + len > b.len() {
                        (b, "unchanged".into())
                    } else {
                        let unit = (len - 1) / 2;
                        let v = *rng.pick(&[0u8, 1, 1, 3, 4, 255]);
                        let copies = (v as usize).min(65534 / unit.max(1));
                        let row = b[sec + 3..sec + 3 + unit].to_vec();
                        let mut payload = vec![v];
                        for _ in 0..copies {
                            payload.extend_from_slice(&row);
                        }
                        let mut out = b[..sec].to_vec();
                        out.extend_from_slice(&(payload.len() as u16).to_le_bytes());
                        out.extend_from_slice(&payload);
                        out.extend_from_slice(&b[sec + 2 + len..]);
                        (out, format!("ood-frame-resized:{}:frame-size-{v}", if sec == s0 { "trace" } else { "constraint" }))
                    }
                },
                _ => (b, "unchanged".into()),
            }
        },
        13 => {
            // blowup factor lowered to the minimum the options allow (other context fields kept)
            let c = &h.proof.context;
            let o = c.options();
            let fo = o.to_fri_options();
            let low = winter_air::ProofOptions::new(o.num_queries(), 2, o.grinding_factor(), o.field_extension(), fo.folding_factor(), fo.remainder_max_degree(), o.constraint_batching_method(), o.deep_poly_batching_method());
            let mut v = winter_utils::Serializable::to_bytes(c.trace_info());
            v.push(c.field_modulus_bytes().len() as u8);
            v.extend_from_slice(c.field_modulus_bytes());
            v.extend(winter_utils::Serializable::to_bytes(&low));
            winter_utils::Serializable::write_into(&c.num_constraints(), &mut v);
            let ctx_end = comps[1].1;
            v.extend_from_slice(&b[ctx_end..]);
            (v, "blowup-lowered-to-2".into())
        },
        12 => {
            // the field modulus bytes of the context resized / replaced (length prefix consistent)
            let c = &h.proof.context;
            let mut v = winter_utils::Serializable::to_bytes(c.trace_info());
            let len = *rng.pick(&[1usize, 2, 7, 8, 9, 15, 16, 17, 31, 32, 33, 64, 128, 254]);
            let content: Vec<u8> = match rng.usize(4) {
                0 => vec![0u8; len],
                1 => vec![0xffu8; len],
                2 => {
                    let mut m = c.field_modulus_bytes().to_vec();
                    m.resize(len, 0);
                    m
                },
                _ => rng.bytes(len),
            };
            v.push(len as u8);
            v.extend_from_slice(&content);
            v.extend(winter_utils::Serializable::to_bytes(c.options()));
            winter_utils::Serializable::write_into(&c.num_constraints(), &mut v);
            let ctx_end = comps[1].1;
            v.extend_from_slice(&b[ctx_end..]);
            (v, format!("field-modulus:{len}-bytes"))
        },
        10 => match other {
            // splice: head of this proof, tail of another
            Some(o) => {
                let i = 1 + rng.usize(comps.len() - 2);
                let cut_a = comps[i].1;
                let name = comps[i].0;
                let cut_b = o.layout.iter().find(|c| c.0 == name).map(|c| c.1).unwrap_or(o.bytes.len() / 2);
                let mut v = b[..cut_a].to_vec();
                v.extend_from_slice(&o.bytes[cut_b.min(o.bytes.len())..]);
                (v, format!("spliced-at:{name}"))
            },
            None => (b, "unchanged".into()),
        },
        _ => {
            let n = rng.usize(400);
            (rng.bytes(n), "random-bytes".into())
        },
    }
}

fn record(rep: &mut Report, what: &str, input: &[u8], desc: &str, r: Result<(), vcommon::PanicInfo>) {
    rep.evals(1);
    if let Err(p) = r {
        rep.violation(&format!("{}|{what}", p.sig()), json!({"mutation": desc, "input_len": input.len(), "input_head": hex(&input[..input.len().min(96)])}));
    }
}

/// decode + verify one mutated proof in every acceptance mode
fn proof_case<B, H>(rep: &mut Report, rng: &mut Rng, h: &Honest, other: Option<&Honest>)
where
    B: BaseFut,
    H: ElementHasher<BaseField = B> + Sync + Send,
{
    let (bytes, desc) = mutate(rng, h, other);
    rep.case(&bytes[..bytes.len().min(4096)], true);
    rep.count(&format!("mutation:{}", desc.split(':').next().unwrap_or("?")));
    let decoded = match guard(|| Proof::from_bytes(&bytes)) {
        Ok(Ok(p)) => p,
        Ok(Err(_)) => {
            rep.count("decode:error");
            return;
        },
        Err(p) => {
            rep.evals(1);
            rep.violation(&format!("{}|Proof::from_bytes", p.sig()), json!({"mutation": desc, "input_head": hex(&bytes[..bytes.len().min(96)])}));
            return;
        },
    };
    rep.count("decode:ok");
    let modes = [
        ("OptionSet", AcceptableOptions::OptionSet(vec![h.options.clone(), decoded.options().clone()])),
        ("MinConjecturedSecurity", AcceptableOptions::MinConjecturedSecurity(0)),
        ("MinProvenSecurity", AcceptableOptions::MinProvenSecurity(0)),
    ];
    for (mname, acc) in modes {
        rep.evals(1);
        match verify::<B, H>(decoded.clone(), &h.spec, &acc) {
            VerifyOutcome::Accept => rep.count("verify:accept"),
            VerifyOutcome::Reject(e) => rep.count(&format!("verify:reject:{}", e.split(['(', '{']).next().unwrap_or("?").trim())),
            VerifyOutcome::Panic(sig) => rep.violation(&format!("{sig}|verify|{mname}"), json!({"mutation": desc, "input_len": bytes.len(), "input_head": hex(&bytes[..bytes.len().min(96)])})),
        }
    }
}

/// seed-bound context edits carried past the out-of-domain check by an OOD patch (replay.rs)
fn ood_patched_case<B, H>(rep: &mut Report, rng: &mut Rng, h: &Honest)
where
    B: BaseFut,
    H: ElementHasher<BaseField = B> + Sync + Send,
    QuadExtension<B>: FieldElement<BaseField = B>,
{
    use winter_air::proof::Context;
    let ti = h.proof.trace_info().clone();
    let o = h.proof.options().clone();
    let nc = h.proof.context.num_constraints();
    let lde = ti.length() * o.blowup_factor();
    let fo = o.to_fri_options();
    let (ext, bc, bd) = (o.field_extension(), o.constraint_batching_method(), o.deep_poly_batching_method());
    let mk = |q: usize, g: u32| winter_air::ProofOptions::new(q, o.blowup_factor(), g, ext, fo.folding_factor(), fo.remainder_max_degree(), bc, bd);
    let (desc, ctx) = match rng.usize(6) {
        0 => ("queries=255", Context::new::<B>(ti.clone(), mk(255, o.grinding_factor()), nc)),
        1 => ("queries=lde", Context::new::<B>(ti.clone(), mk(lde.min(255), o.grinding_factor()), nc)),
        2 => ("queries=lde-1", Context::new::<B>(ti.clone(), mk((lde - 1).min(255), o.grinding_factor()), nc)),
        3 => ("queries=1", Context::new::<B>(ti.clone(), mk(1, o.grinding_factor()), nc)),
        4 => ("grinding=32", Context::new::<B>(ti.clone(), mk(o.num_queries(), 32), nc)),
        _ => ("constraints+1", Context::new::<B>(ti.clone(), o.clone(), nc + 1)),
    };
    let mut edited = h.proof.clone();
    edited.context = ctx;
    let patched = match h.inst.opts.ext {
        0 => guard(|| ood_patch::<B, B, H>(&edited, &h.spec)),
        1 => guard(|| ood_patch::<B, QuadExtension<B>, H>(&edited, &h.spec)),
        _ => {
            rep.count("ood_patch:skipped-cubic");
            return;
        },
    };
    let patched = match patched {
        Ok(Some(p)) => p,
        Ok(None) => {
            rep.count("ood_patch:edited-proof-does-not-parse");
            return;
        },
        Err(p) => {
            rep.evals(1);
            rep.violation(&format!("{}|while-patching (public Air / parser APIs on the edited proof)", p.sig()), json!({"edit": desc}));
            return;
        },
    };
    rep.case(format!("ood/{desc}/{}", hex(&h.bytes[..24])).as_bytes(), true);
    rep.count(&format!("mutation:ood-patched:{desc}"));
    let accs = [("OptionSet", AcceptableOptions::OptionSet(vec![patched.options().clone()])), ("MinConjecturedSecurity", AcceptableOptions::MinConjecturedSecurity(0))];
    for (mname, acc) in accs {
        rep.evals(1);
        match verify::<B, H>(patched.clone(), &h.spec, &acc) {
            VerifyOutcome::Accept => rep.count("verify:accept"),
            VerifyOutcome::Reject(e) => {
                let step = e.split(['(', '{']).next().unwrap_or("?").trim().to_string();
                rep.count(&format!("ood_patched_rejected_by:{step}"));
            },
            VerifyOutcome::Panic(sig) => rep.violation(&format!("{sig}|verify|{mname}"), json!({"mutation": format!("ood-patched:{desc}"), "options": format!("{:?}", h.inst.opts), "lde": lde})),
        }
    }
}

/// multi-site edit: the unique-query count lowered to k and every opened table cut to k rows (the
/// opening proofs still cover the original positions), so the batch verifier gets fewer leaves
/// than indexes
fn fewer_rows_case<B, H>(rep: &mut Report, rng: &mut Rng, h: &Honest)
where
    B: BaseFut,
    H: ElementHasher<BaseField = B> + Sync + Send,
    QuadExtension<B>: FieldElement<BaseField = B>,
{
    use crate::replay::{open_queries, rebuild_queries};
    use winter_air::Air;
    let nq = h.proof.num_unique_queries as usize;
    if nq < 2 || h.inst.opts.ext > 1 {
        return;
    }
    let k = 1 + rng.usize(nq - 1);
    let air = genair::GenAir::<B>::new(h.proof.trace_info().clone(), genair::GenPub::new(h.spec.clone()), h.proof.options().clone());
    let lde = air.lde_domain_size();
    let mw = air.trace_info().main_trace_width();
    let aw = air.trace_info().aux_segment_width();
    let cw = air.context().num_constraint_composition_columns();
    let built = guard(|| -> Option<Proof> {
        let mut p = h.proof.clone();
        p.num_unique_queries = k as u8;
        let (mp, rows) = open_queries::<B, H>(&h.proof.trace_queries[0], lde, nq, mw).ok()?;
        p.trace_queries[0] = rebuild_queries::<B, H>(mp, rows[..k].to_vec());
        macro_rules! ext_tables {
            ($e:ty) => {{
                if aw > 0 {
                    let (mp, rows) = open_queries::<$e, H>(&h.proof.trace_queries[1], lde, nq, aw).ok()?;
                    p.trace_queries[1] = rebuild_queries::<$e, H>(mp, rows[..k].to_vec());
                }
                let (mp, rows) = open_queries::<$e, H>(&h.proof.constraint_queries, lde, nq, cw).ok()?;
                p.constraint_queries = rebuild_queries::<$e, H>(mp, rows[..k].to_vec());
            }};
        }
        if h.inst.opts.ext == 0 { ext_tables!(B) } else { ext_tables!(QuadExtension<B>) }
        Some(p)
    });
    let p = match built {
        Ok(Some(p)) => p,
        _ => return,
    };
    rep.case(format!("fewer/{k}/{nq}/{}", hex(&h.bytes[..24])).as_bytes(), true);
    rep.count("mutation:fewer-opened-rows-than-positions");
    for (mname, acc) in [("OptionSet", AcceptableOptions::OptionSet(vec![h.options.clone()])), ("MinConjecturedSecurity", AcceptableOptions::MinConjecturedSecurity(0))] {
        rep.evals(1);
        match verify::<B, H>(p.clone(), &h.spec, &acc) {
            VerifyOutcome::Accept => rep.violation(&format!("accepted|fewer-opened-rows-than-positions|{mname}"), json!({"k": k, "unique_queries": nq})),
            VerifyOutcome::Reject(e) => rep.count(&format!("verify:reject:{}", e.split(['(', '{']).next().unwrap_or("?").trim())),
            VerifyOutcome::Panic(sig) => rep.violation(&format!("{sig}|verify|{mname}"), json!({"mutation": "fewer-opened-rows-than-positions", "k": k, "unique_queries": nq})),
        }
    }
}

/// component decoders and parsers on hostile bytes
fn component_case<E, H>(rep: &mut Report, rng: &mut Rng, h: &Honest)
where
    E: FieldElement,
    H: ElementHasher<BaseField = E::BaseField>,
{
    // source bytes: a component of an honest proof, mutated, or random
    let comps = &h.layout;
    let i = rng.usize(comps.len() - 1);
    let (name, s, e) = (comps[i].0, comps[i].1, comps[i + 1].1);
    let mut b = h.bytes[s..e].to_vec();
    let mut desc = format!("{name}:");
    match rng.usize(6) {
        0 => {
            let n = rng.usize(80);
            b = rng.bytes(n);
            desc.push_str("random");
        },
        1 => {
            let cut = rng.usize(b.len() + 1);
            b.truncate(cut);
            desc.push_str("truncated");
        },
        _ => {
            for _ in 0..1 + rng.usize(3) {
                if b.is_empty() {
                    break;
                }
                let at = rng.usize(b.len().min(16));
                b[at] = if rng.bool() { *rng.pick(&INTERESTING) } else { rng.u8() };
            }
            desc.push_str("header-bytes");
        },
    }
    rep.case(&b[..b.len().min(2048)], true);
    component_bytes::<E, H>(rep, rng, &b, &desc);
}

fn component_bytes<E, H>(rep: &mut Report, rng: &mut Rng, b: &[u8], desc: &str)
where
    E: FieldElement,
    H: ElementHasher<BaseField = E::BaseField>,
{
    let (d, w, q) = (1usize << rng.usize(12), 1 + rng.usize(255), 1 + rng.usize(255));
    record(rep, "TraceInfo::read_from_bytes", b, desc, guard(|| drop(TraceInfo::read_from_bytes(b))));
    record(rep, "ProofOptions::read_from_bytes", b, desc, guard(|| drop(ProofOptions::read_from_bytes(b))));
    record(rep, "Context::read_from_bytes", b, desc, guard(|| {
        if let Ok(c) = Context::read_from_bytes(b) {
            let _ = c.num_modulus_bits();
            let _ = c.lde_domain_size();
        }
    }));
    record(rep, "Commitments::read_from_bytes+parse", b, desc, guard(|| {
        if let Ok(c) = Commitments::read_from_bytes(b) {
            let _ = c.parse::<H>(1 + rng.usize(2), rng.usize(12));
        }
    }));
    record(rep, "Queries::read_from_bytes+parse", b, desc, guard(|| {
        if let Ok(x) = Queries::read_from_bytes(b) {
            let _ = x.parse::<E, H, MerkleTree<H>>(d, q, w);
        }
    }));
    record(rep, "OodFrame::read_from_bytes+parse", b, desc, guard(|| {
        if let Ok(x) = OodFrame::read_from_bytes(b) {
            let _ = x.parse::<E>(w, rng.usize(4), 1 + rng.usize(8));
        }
    }));
    record(rep, "FriProof::read_from_bytes+parse", b, desc, guard(|| {
        if let Ok(x) = FriProof::read_from_bytes(b) {
            let _ = x.num_partitions();
            let _ = x.num_layers();
            let _ = x.parse_remainder::<E>();
            let _ = x.parse_layers::<E, H, MerkleTree<H>>(d.max(2), *rng.pick(&[2usize, 4, 8, 16]));
        }
    }));
    record(rep, "BatchMerkleProof::read_from_bytes+get_root", b, desc, guard(|| {
        if let Ok(x) = BatchMerkleProof::<H>::read_from_bytes(b) {
            let idx: Vec<usize> = (0..rng.usize(5)).map(|_| rng.usize(64)).collect();
            let leaves = vec![H::Digest::default(); idx.len()];
            let _ = x.get_root(&idx, &leaves);
        }
    }));
    record(rep, "Digest::read_from_bytes", b, desc, guard(|| drop(<H::Digest as Deserializable>::read_from_bytes(b))));
    record(rep, "elements::read_from_bytes", b, desc, guard(|| {
        let _ = E::read_from_bytes(b);
        let _ = E::BaseField::read_from_bytes(b);
        let _ = Vec::<E>::read_from_bytes(b);
        let mut rd = SliceReader::new(b);
        let _ = winter_utils::ByteReader::read_many::<E>(&mut rd, rng.usize(300));
    }));
}

pub fn run(args: &Args) {
    let mut rep = Report::new("C05", "c05",
        "honest GenAir proofs (a seed-determined pool over 3 fields x 3 hashers, main-only and auxiliary, 3 extensions, partitions, grinding) mutated with structure knowledge: header bytes of every component (context, counts, commitments, query values and openings, OOD frame, FRI layers / remainder / partition exponent, nonce) set to boundary values / +-1 / bit flips, several header bytes at once, huge variable-length integers spliced in, truncation at any offset, deleted / duplicated ranges at component boundaries, random bytes, splices of two proofs, random strings: Proof::from_bytes then verify under OptionSet, MinConjecturedSecurity(0) and MinProvenSecurity(0); every component decoder and parser (TraceInfo, ProofOptions, Context, Commitments, Queries, OodFrame, FriProof, BatchMerkleProof, digests, elements) on mutated component bytes with random parse parameters; a panic, abort (allocation), signal or hang is a violation; distinct = inputs");
    let seed = args.seed();
    type F64 = f64m::BaseElement;
    type F62 = f62::BaseElement;
    type F128 = f128::BaseElement;
    // pool (same in every worker of a run)
    let mut prng = Rng::for_case(seed, 500, 0);
    let p64: Vec<Honest> = (0..6).filter_map(|s| make::<F64, Blake3_256<F64>>(&mut prng, s)).collect();
    let p64r: Vec<Honest> = (0..3).filter_map(|s| make::<F64, Rp64_256>(&mut prng, s + 1)).collect();
    let p128: Vec<Honest> = (0..4).filter_map(|s| make::<F128, Sha3_256<F128>>(&mut prng, s)).collect();
    let p62: Vec<Honest> = (0..4).filter_map(|s| make::<F62, Blake3_256<F62>>(&mut prng, s + 2)).collect();
    if p64.is_empty() || p128.is_empty() || p62.is_empty() || p64r.is_empty() {
        rep.inconclusive("could-not-build-honest-proof-pool", json!({}));
        rep.finish(&args.out());
        return;
    }
    rep.extra.insert("pool".into(), json!({"f64/Blake3_256": p64.len(), "f64/Rp64_256": p64r.len(), "f128/Sha3_256": p128.len(), "f62/Blake3_256": p62.len(),
        "proof_bytes": p64.iter().chain(&p128).chain(&p62).map(|h| h.bytes.len()).collect::<Vec<_>>()}));
    let mut w = Worker::new(args, 2000);
    for case in w.from..w.to {
        if !w.start(case, &mut rep) {
            continue;
        }
        let mut rng = Rng::for_case(seed, 501, case);
        let component = case % 5 == 4;
        match case % 4 {
            0 => {
                let h = &p64[rng.usize(p64.len())];
                let o = &p64[rng.usize(p64.len())];
                if component {
                    if rng.bool() { component_case::<QuadExtension<F64>, Blake3_256<F64>>(&mut rep, &mut rng, h) } else { component_case::<CubeExtension<F64>, Blake3_256<F64>>(&mut rep, &mut rng, h) }
                } else if case % 8 == 0 {
                    ood_patched_case::<F64, Blake3_256<F64>>(&mut rep, &mut rng, h);
                } else if case % 16 == 4 {
                    fewer_rows_case::<F64, Blake3_256<F64>>(&mut rep, &mut rng, h);
                } else {
                    proof_case::<F64, Blake3_256<F64>>(&mut rep, &mut rng, h, Some(o));
                }
            },
            1 => {
                let h = &p128[rng.usize(p128.len())];
                let o = &p128[rng.usize(p128.len())];
                if component { component_case::<F128, Sha3_256<F128>>(&mut rep, &mut rng, h) } else if case % 8 == 1 { ood_patched_case::<F128, Sha3_256<F128>>(&mut rep, &mut rng, h) } else if case % 16 == 5 { fewer_rows_case::<F128, Sha3_256<F128>>(&mut rep, &mut rng, h) } else { proof_case::<F128, Sha3_256<F128>>(&mut rep, &mut rng, h, Some(o)) }
            },
            2 => {
                let h = &p62[rng.usize(p62.len())];
                let o = &p62[rng.usize(p62.len())];
                if component { component_case::<QuadExtension<F62>, Blake3_256<F62>>(&mut rep, &mut rng, h) } else if case % 8 == 2 { ood_patched_case::<F62, Blake3_256<F62>>(&mut rep, &mut rng, h) } else { proof_case::<F62, Blake3_256<F62>>(&mut rep, &mut rng, h, Some(o)) }
            },
            _ => {
                let h = &p64r[rng.usize(p64r.len())];
                if component { component_case::<F64, Rp64_256>(&mut rep, &mut rng, h) } else { proof_case::<F64, Rp64_256>(&mut rep, &mut rng, h, None) }
            },
        }
        if rep.samples.len() < rep.max_samples && case % 97 == 0 {
            rep.sample(json!({"case": case, "kind": if component { "component decoders" } else { "mutated proof" }}));
        }
    }
    let _: Option<Value> = None;
    rep.finish(&args.out());
}

/// decoders only (no prover needed): mutated encodings of the library's own dummy proof and random
/// bytes through Proof::from_bytes and every component decoder; sized for Miri as well
pub fn decoders(args: &Args) {
    let mut rep = Report::new("C05", "c05_decoders",
        "mutated encodings of Proof::new_dummy() (header bytes, huge lengths, truncation, random bytes) and random strings through Proof::from_bytes and every component decoder / parser; no panic, abort, hang or (under Miri) undefined behaviour");
    let seed = args.seed();
    type F64 = f64m::BaseElement;
    let base = winter_utils::Serializable::to_bytes(&Proof::new_dummy());
    let fake = Honest_like(&base);
    let mut w = Worker::new(args, 300);
    for case in w.from..w.to {
        if !w.start(case, &mut rep) {
            continue;
        }
        let mut rng = Rng::for_case(seed, 502, case);
        let mut b = base.clone();
        let desc = match rng.usize(5) {
            0 => {
                let n = rng.usize(120);
                b = rng.bytes(n);
                "random"
            },
            1 => {
                let cut = rng.usize(b.len() + 1);
                b.truncate(cut);
                "truncated"
            },
            2 => {
                let at = rng.usize(b.len().min(40));
                b.splice(at..at, vec![0x00, 0xff, 0xff, 0xff, 0xff, 0xff, 0xff, 0xff, 0xff]);
                "huge-length"
            },
            _ => {
                for _ in 0..1 + rng.usize(3) {
                    let at = rng.usize(b.len());
                    b[at] = if rng.bool() { *rng.pick(&INTERESTING) } else { rng.u8() };
                }
                "bytes"
            },
        };
        rep.case(&b, true);
        record(&mut rep, "Proof::from_bytes", &b, desc, guard(|| {
            if let Ok(p) = Proof::from_bytes(&b) {
                let _ = p.conjectured_security::<Blake3_256<F64>>();
                let _ = p.lde_domain_size();
            }
        }));
        let _ = &fake;
        component_bytes::<QuadExtension<F64>, Blake3_256<F64>>(&mut rep, &mut rng, &b, desc);
        if rep.samples.len() < rep.max_samples && case % 50 == 0 {
            rep.sample(json!({"case": case, "mutation": desc, "bytes": hex(&b[..b.len().min(48)])}));
        }
    }
    rep.finish(&args.out());
}

#[allow(non_snake_case)]
fn Honest_like(_b: &[u8]) {}
