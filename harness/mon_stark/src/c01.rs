//! C01: honest proofs of satisfied AIR instances always verify.
use genair::checker::check_main;
use genair::run::{gen_instance, prove, verify, Instance, Opts, ProveOutcome, VerifyOutcome};
use genair::spec::GenParams;
use genair::stark_dispatch;
use vcommon::{json, Args, Report, Rng, Value, Worker};
use vwf::BaseFut;
use winter_crypto::ElementHasher;
use winterfell::{AcceptableOptions, Proof};

pub fn params_for(rng: &mut Rng, case: u64, max_log_n: u32, exact: bool) -> GenParams {
    let log_n = match rng.usize(8) {
        0 => 3,
        1 => 4,
        2 => max_log_n,
        _ => rng.range(3, max_log_n as usize) as u32,
    };
    GenParams {
        log_n,
        max_width: *rng.pick(&[1usize, 2, 3, 5, 8, 12]),
        max_degree: *rng.pick(&[1usize, 2, 2, 3, 3, 4, 5, 8]),
        periodic: rng.chance(1, 2),
        aux: rng.chance(2, 5),
        exemptions: match rng.usize(5) { 0 | 1 => 1, 2 => 2, 3 => 3, _ => 1 + rng.usize((1 << log_n) / 2) },
        long_sequence: log_n >= 7 && case % 5 == 0,
        max_blowup: *rng.pick(&[8usize, 16, 32, 64, 128]),
        exact,
        max_assertions: 0,
        long_cycles: false,
    }
}

pub fn describe(inst: &Instance, name: &str) -> Value {
    let s = &inst.spec;
    json!({
        "inst": name, "n": s.n(), "width": s.width, "constraints": s.constraints.len(),
        "degrees": s.constraints.iter().map(|c| { let (b, cy) = c.degree(&s.periodic); format!("{b}{cy:?}") }).collect::<Vec<_>>(),
        "exemptions": s.exemptions, "periodic": s.periodic.iter().map(|c| c.len()).collect::<Vec<_>>(),
        "aux": s.aux.len(), "aux_rands": s.aux_rands, "meta_len": s.meta.len(),
        "assertions": s.assertions.iter().map(|a| format!("k{} c{} f{} s{} v{}", a.kind, a.col, a.first, a.stride, a.values.len())).collect::<Vec<_>>(),
        "opts": format!("{:?}", inst.opts),
    })
}

/// proves and verifies one instance; returns the proof when accepted
pub fn prove_and_verify<B, H>(rep: &mut Report, inst: &Instance, _name: &str, ctx: &Value) -> Option<Proof>
where
    B: BaseFut,
    H: ElementHasher<BaseField = B> + Sync + Send,
{
    let options = inst.opts.build();
    let proof = match prove::<B, H>(&inst.spec, &inst.main, options.clone(), None) {
        ProveOutcome::Proof(p) => *p,
        ProveOutcome::Error(e) => {
            rep.violation(&format!("prover-error|{}", e.split('(').next().unwrap_or("?")), json!({"ctx": ctx, "error": e}));
            return None;
        },
        ProveOutcome::Panic(p) => {
            if std::env::var("VERIF_DEBUG").is_ok() {
                eprintln!("PANIC {}:{} {}\n  ctx {}", p.file, p.line, p.message, ctx);
            }
            rep.violation(&format!("{}|prover", p.sig()), ctx.clone());
            return None;
        },
    };
    rep.count(&format!("unique_queries:{}", match proof.num_unique_queries { 1 => "1", 2..=31 => "2..31", 32..=254 => "32..254", _ => "255" }));
    let acc = AcceptableOptions::OptionSet(vec![options]);
    match verify::<B, H>(proof.clone(), &inst.spec, &acc) {
        VerifyOutcome::Accept => {},
        VerifyOutcome::Reject(e) => {
            rep.violation(&format!("honest-proof-rejected|{}", e.split('(').next().unwrap_or("?")), json!({"ctx": ctx, "error": e}));
            return None;
        },
        VerifyOutcome::Panic(p) => {
            rep.violation(&format!("{p}|verifier"), ctx.clone());
            return None;
        },
    }
    // the decoded proof gets the same verdict
    let bytes = proof.to_bytes();
    match vcommon::guard(|| Proof::from_bytes(&bytes)) {
        Ok(Ok(back)) => {
            if back != proof {
                rep.violation("decoded-proof-differs", ctx.clone());
            }
            match verify::<B, H>(back, &inst.spec, &acc) {
                VerifyOutcome::Accept => {},
                other => rep.violation("decoded-honest-proof-not-accepted", json!({"ctx": ctx, "outcome": format!("{other:?}")})),
            }
        },
        Ok(Err(e)) => rep.violation("honest-proof-does-not-decode", json!({"ctx": ctx, "error": format!("{e}")})),
        Err(p) => rep.violation(&format!("{}|Proof::from_bytes", p.sig()), ctx.clone()),
    }
    rep.count_n("proof_bytes", bytes.len() as u64);
    Some(proof)
}

fn one<B, H>(rep: &mut Report, rng: &mut Rng, case: u64, max_log_n: u32, exact: bool, name: &str)
where
    B: BaseFut,
    H: ElementHasher<BaseField = B> + Sync + Send,
{
    let gp = params_for(rng, case, max_log_n, exact);
    let inst = gen_instance(rng, B::SPEC, &gp);
    let ctx = describe(&inst, name);
    let s = &inst.spec;
    let o = &inst.opts;
    rep.case(format!("{ctx}").as_bytes(), true);
    for k in [
        format!("inst:{name}"), format!("ext:{}", o.ext), format!("folding:{}", o.folding), format!("batching:{}{}", o.bc, o.bd),
        format!("partitions:{}", if o.partitions > 1 { "many" } else { "1" }), format!("hash_rate:{}", if o.hash_rate > 1 { ">1" } else { "1" }),
        format!("blowup:{}", o.blowup), format!("rem:{}", o.rem), format!("grinding:{}", if o.grinding == 0 { "0" } else { ">0" }),
        format!("log_n:{}", s.log_n), format!("exemptions:{}", s.exemptions.min(4)), format!("aux:{}", !s.aux.is_empty()),
        format!("periodic:{}", !s.periodic.is_empty()), format!("long_sequence:{}", s.assertions.iter().any(|a| a.values.len() >= 64)),
    ] {
        rep.count(&k);
    }
    // the independent checker must agree that the statement is true
    let v = check_main(s, &inst.main);
    if !v.is_empty() {
        rep.inconclusive("generator-produced-unsatisfying-trace (harness bug)", json!({"ctx": ctx, "violations": format!("{:?}", &v[..v.len().min(3)])}));
        return;
    }
    if prove_and_verify::<B, H>(rep, &inst, name, &ctx).is_some() && rep.samples.len() < rep.max_samples {
        rep.sample(ctx);
    }
}

/// directed cases for known-delicate corners
fn directed<B, H>(rep: &mut Report, rng: &mut Rng, which: u64, exact: bool, name: &str)
where
    B: BaseFut,
    H: ElementHasher<BaseField = B> + Sync + Send,
{
    let base = GenParams { log_n: 6, max_width: 3, max_degree: 2, periodic: false, aux: false, exemptions: 1, long_sequence: false, max_blowup: 8, exact, max_assertions: 0, long_cycles: false };
    let (label, gp, fix): (&str, GenParams, Box<dyn Fn(&mut Opts)>) = match which {
        // 255 distinct query positions need a large LDE domain
        0 => ("255-unique-queries", GenParams { log_n: 16, max_width: 2, ..base.clone() }, Box::new(|o: &mut Opts| {
            o.queries = 255;
            o.blowup = 8;
            o.grinding = 0;
            o.folding = 8;
            o.rem = 255;
            o.partitions = 1;
            o.hash_rate = 1;
        })),
        // composition polynomial degree a multiple of the trace length
        1 => ("two-exemptions-degree-two", GenParams { exemptions: 2, max_degree: 2, ..base.clone() }, Box::new(|_| {})),
        2 => ("three-exemptions", GenParams { exemptions: 3, max_degree: 3, ..base.clone() }, Box::new(|_| {})),
        3 => ("many-exemptions", GenParams { exemptions: 33, max_degree: 2, ..base.clone() }, Box::new(|_| {})),
        4 => ("wide-trace", GenParams { max_width: 255, log_n: 5, ..base.clone() }, Box::new(|_| {})),
        5 => ("aux-and-periodic-high-degree", GenParams { aux: true, periodic: true, max_degree: 8, max_blowup: 16, ..base.clone() }, Box::new(|_| {})),
        6 => ("smallest-trace", GenParams { log_n: 3, ..base.clone() }, Box::new(|_| {})),
        _ => ("long-sequence", GenParams { log_n: 10, long_sequence: true, ..base.clone() }, Box::new(|_| {})),
    };
    let mut gp = gp;
    if label == "wide-trace" {
        // force the width itself, not just its maximum
        gp.max_width = 255;
    }
    let mut inst = gen_instance(rng, B::SPEC, &gp);
    if label == "wide-trace" && inst.spec.width < 200 {
        // redraw until wide
        for _ in 0..50 {
            inst = gen_instance(rng, B::SPEC, &gp);
            if inst.spec.width >= 200 {
                break;
            }
        }
    }
    fix(&mut inst.opts);
    if !inst.opts.valid_for(&inst.spec) {
        rep.count(&format!("directed_skipped_invalid_options:{label}"));
        return;
    }
    let ctx = json!({"directed": label, "d": describe(&inst, name)});
    rep.case(format!("{ctx}").as_bytes(), true);
    rep.count(&format!("directed:{label}"));
    if !check_main(&inst.spec, &inst.main).is_empty() {
        rep.inconclusive("generator-produced-unsatisfying-trace (harness bug)", ctx);
        return;
    }
    if let Some(p) = prove_and_verify::<B, H>(rep, &inst, name, &ctx) {
        if label == "255-unique-queries" {
            rep.count(&format!("directed_255_unique_observed:{}", p.num_unique_queries));
        }
    }
}

pub fn run(args: &Args) {
    let mut rep = Report::new("C01", "c01",
        "random GenAir instances (trace length 2^3..2^K, main width 1..12, 1..width constraints of degree 1..8 with periodic factors, rotation columns, free columns, 1..n/2 exemptions, auxiliary segment with 0..4 random elements, single / periodic / sequence assertions incl. >= 64 values, metadata) x 11 field/hasher pairs x random valid options (3 extensions, 9 batching pairs, blowup up to 128, folding 2..16, remainder 0..255, 1..255 queries, grinding 0..12, partitions 1..16 x hash rate); independent checker confirms the statement; prove, verify under OptionSet, re-verify after to_bytes/from_bytes; plus directed corners (255 unique queries, exemption/degree combinations, width 255, smallest trace, long sequences); distinct = instance descriptions");
    let seed = args.seed();
    let max_log_n = args.u64("maxlogn", if args.thorough() { 12 } else { 9 }) as u32;
    let exact = args.u64("exact", 0) == 1;
    let ndirected = 8u64;
    let mut w = Worker::new(args, 100);
    for case in w.from..w.to {
        if !w.start(case, &mut rep) {
            continue;
        }
        let mut rng = Rng::for_case(seed, 100, case);
        if case < ndirected * 3 {
            let which = case % ndirected;
            // the large directed case once per run, on a fast hasher
            if which == 0 {
                if case == 0 {
                    directed::<winter_math::fields::f64::BaseElement, winter_crypto::hashers::Blake3_256<winter_math::fields::f64::BaseElement>>(&mut rep, &mut rng, 0, exact, "f64/Blake3_256");
                }
                continue;
            }
            stark_dispatch!(directed, case / ndirected + which, &mut rep, &mut rng, which, exact);
        } else {
            stark_dispatch!(one, case, &mut rep, &mut rng, case, max_log_n, exact);
        }
    }
    rep.extra.insert("exact_degree_mode".into(), json!(exact));
    rep.finish(&args.out());
}
