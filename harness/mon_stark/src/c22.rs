//! C22: boundary constraints vanish exactly on asserted cells; divisors vanish exactly on the
//! group's steps; coefficient assignment (and the proof) is independent of assertion order.
use std::sync::Arc;

use genair::run::{gen_instance, prove, ProveOutcome};
use genair::spec::{AssertSpec, Spec};
use genair::{stark_dispatch, GenAir, GenPub, GenTrace};
use vcommon::{guard, json, Args, Report, Rng, Value, Worker};
use vwf::{BaseFut, Fut};
use winter_crypto::ElementHasher;
use winter_math::fields::QuadExtension;
use winter_math::{ExtensionOf, FieldElement};
use winterfell::{Air, AuxRandElements, BoundaryConstraintGroup, Trace};

use crate::c01::{describe, params_for};

fn sort_key(a: &AssertSpec) -> (usize, usize, usize) {
    (if a.kind == 0 { 0 } else { a.stride }, a.first, a.col)
}

/// checks one list of groups against the assertions they were derived from
fn check_groups<F, E>(rep: &mut Report, ctx: &Value, seg: &str, groups: &[BoundaryConstraintGroup<F, E>], assertions: &[(AssertSpec, Vec<F>)], coeffs: &[E], n: usize, g: E::BaseField)
where
    F: FieldElement,
    E: FieldElement<BaseField = F::BaseField> + ExtensionOf<F>,
{
    // expected order: by (stride, first step, column)
    let mut sorted: Vec<&(AssertSpec, Vec<F>)> = assertions.iter().collect();
    sorted.sort_by_key(|a| sort_key(&a.0));
    let total: usize = groups.iter().map(|g| g.constraints().len()).sum();
    rep.evals(1);
    if total != sorted.len() {
        rep.violation(&format!("boundary-constraint-count|{seg}"), json!({"ctx": ctx, "constraints": total, "assertions": sorted.len()}));
        return;
    }
    // group keys strictly increasing => groups are distinct (stride, first) classes
    let xs: Vec<E> = {
        let mut v = Vec::with_capacity(n);
        let mut x = E::ONE;
        for _ in 0..n {
            v.push(x);
            x *= E::from(g);
        }
        v
    };
    let mut k = 0;
    let mut prev_key: Option<(usize, usize)> = None;
    for grp in groups {
        let first_a = &sorted[k].0;
        let key = (sort_key(first_a).0, first_a.first);
        if let Some(pk) = prev_key {
            if pk >= key {
                rep.violation(&format!("boundary-group-order|{seg}"), json!({"ctx": ctx, "prev": format!("{pk:?}"), "this": format!("{key:?}")}));
            }
        }
        prev_key = Some(key);
        let steps = first_a.steps(n);
        // divisor: zero exactly on the group's steps, degree = their number
        rep.evals(1);
        rep.count(&format!("groups:kind{}", first_a.kind));
        if grp.divisor().degree() != steps.len() {
            rep.violation(&format!("boundary-divisor-degree|kind{}", first_a.kind), json!({"ctx": ctx, "assertion": format!("{first_a:?}").chars().take(100).collect::<String>(), "degree": grp.divisor().degree(), "steps": steps.len()}));
        }
        let mut in_set = vec![false; n];
        for s in &steps {
            in_set[*s] = true;
        }
        for s in 0..n {
            let z = grp.divisor().evaluate_at(xs[s]) == E::ZERO;
            if z != in_set[s] {
                rep.violation(&format!("boundary-divisor-{}|kind{}", if z { "vanishes-off-the-asserted-steps" } else { "nonzero-on-asserted-step" }, first_a.kind),
                    json!({"ctx": ctx, "assertion": format!("{first_a:?}").chars().take(100).collect::<String>(), "step": s}));
                break;
            }
        }
        for c in grp.constraints() {
            let (a, vals) = sorted[k];
            rep.evals(1);
            if sort_key(a).0 != key.0 || a.first != key.1 || c.column() != a.col {
                rep.violation(&format!("boundary-constraint-to-assertion-mapping|{seg}"), json!({"ctx": ctx, "position": k}));
                return;
            }
            if *c.cc() != coeffs[k] {
                rep.violation(&format!("boundary-coefficient-assignment|{seg}"), json!({"ctx": ctx, "position": k}));
            }
            for (i, s) in a.steps(n).into_iter().enumerate() {
                let v: E = E::from(if a.kind == 2 { vals[i] } else { vals[0] });
                if c.evaluate_at(xs[s], v) != E::ZERO {
                    rep.violation(&format!("boundary-constraint-nonzero-on-asserted-value|kind{}", a.kind), json!({"ctx": ctx, "assertion": format!("{a:?}").chars().take(100).collect::<String>(), "step": s, "index": i}));
                    break;
                }
                if c.evaluate_at(xs[s], v + E::ONE) == E::ZERO {
                    rep.violation(&format!("boundary-constraint-zero-on-wrong-value|kind{}", a.kind), json!({"ctx": ctx, "assertion": format!("{a:?}").chars().take(100).collect::<String>(), "step": s}));
                    break;
                }
            }
            rep.count(&format!("constraints:kind{}:{}", a.kind, if a.values.len() >= 64 { "long" } else { "short" }));
            k += 1;
        }
    }
}

fn with_ext<B, E>(rep: &mut Report, rng: &mut Rng, spec: &Arc<Spec>, main: &[Vec<u128>], options: &winterfell::ProofOptions, ctx: &Value)
where
    B: BaseFut,
    E: Fut<B = B> + FieldElement<BaseField = B> + ExtensionOf<B>,
{
    let n = spec.n();
    let trace = GenTrace::<B>::new(spec, main);
    let air = GenAir::<B>::new(trace.info().clone(), GenPub::new(spec.clone()), options.clone());
    let g = air.trace_domain_generator();
    let rands: Vec<E> = (0..spec.aux_rands).map(|_| E::gen(rng).0).collect();
    let are = AuxRandElements::new(rands.clone());
    let nall = spec.assertions.len() + spec.aux.len();
    let coeffs: Vec<E> = (0..nall).map(|_| E::gen(rng).0).collect();
    let bc = match guard(|| air.get_boundary_constraints::<E>(if spec.aux.is_empty() { None } else { Some(&are) }, &coeffs)) {
        Ok(b) => b,
        Err(p) => {
            rep.violation(&format!("{}|get_boundary_constraints", p.sig()), ctx.clone());
            return;
        },
    };
    let main_assertions: Vec<(AssertSpec, Vec<B>)> = spec.assertions.iter().map(|a| (a.clone(), a.values.iter().map(|v| B::from_int(*v)).collect())).collect();
    check_groups::<B, E>(rep, ctx, "main", bc.main_constraints(), &main_assertions, &coeffs[..spec.assertions.len()], n, g);
    if !spec.aux.is_empty() {
        let aux_assertions: Vec<(AssertSpec, Vec<E>)> = air
            .get_aux_assertions(&are)
            .into_iter()
            .map(|a| (AssertSpec { kind: 0, col: a.column(), first: a.first_step(), stride: 0, values: vec![0] }, a.values().to_vec()))
            .collect();
        check_groups::<E, E>(rep, ctx, "aux", bc.aux_constraints(), &aux_assertions, &coeffs[spec.assertions.len()..], n, g);
    }
    // order independence of the coefficient assignment: another permutation of the same list
    let mut s2: Spec = (**spec).clone();
    rng.shuffle(&mut s2.assertion_order);
    let s2 = Arc::new(s2);
    let air2 = GenAir::<B>::new(trace.info().clone(), GenPub::new(s2.clone()), options.clone());
    let bc2 = air2.get_boundary_constraints::<E>(if spec.aux.is_empty() { None } else { Some(&are) }, &coeffs);
    rep.evals(1);
    let flat = |gs: &[BoundaryConstraintGroup<B, E>]| gs.iter().flat_map(|g| g.constraints().iter().map(|c| (c.column(), c.poly().to_vec(), c.poly_offset(), *c.cc())).collect::<Vec<_>>()).collect::<Vec<_>>();
    if flat(bc.main_constraints()) != flat(bc2.main_constraints()) {
        rep.violation("boundary-constraints-depend-on-assertion-order", json!({"ctx": ctx, "order_a": spec.assertion_order, "order_b": s2.assertion_order}));
    }
}

fn one<B, H>(rep: &mut Report, rng: &mut Rng, case: u64, max_log_n: u32, name: &str)
where
    B: BaseFut + Fut<B = B>,
    H: ElementHasher<BaseField = B> + Sync + Send,
    QuadExtension<B>: Fut<B = B> + FieldElement<BaseField = B> + ExtensionOf<B>,
{
    let mut gp = params_for(rng, case, max_log_n, false);
    gp.max_assertions = *rng.pick(&[3usize, 8, 24]);
    gp.long_sequence = gp.log_n >= 7 && case % 3 == 0;
    let inst = gen_instance(rng, B::SPEC, &gp);
    let ctx = describe(&inst, name);
    rep.distinct_key(format!("{ctx}").as_bytes());
    let options = inst.opts.build();
    if case % 2 == 0 {
        with_ext::<B, B>(rep, rng, &inst.spec, &inst.main, &options, &ctx);
    } else {
        with_ext::<B, QuadExtension<B>>(rep, rng, &inst.spec, &inst.main, &options, &ctx);
    }
    // end to end: the proof does not depend on the order in which the AIR lists its assertions
    if case % 4 == 0 && inst.spec.assertions.len() >= 2 && inst.spec.n() <= 256 && !cfg!(feature = "concurrent") && !cfg!(debug_assertions) {
        let mut s2: Spec = (*inst.spec).clone();
        s2.assertion_order.reverse();
        let s2 = Arc::new(s2);
        rep.evals(1);
        rep.count("proof_pairs_compared");
        match (prove::<B, H>(&inst.spec, &inst.main, options.clone(), None), prove::<B, H>(&s2, &inst.main, options.clone(), None)) {
            (ProveOutcome::Proof(a), ProveOutcome::Proof(b)) => {
                if a.to_bytes() != b.to_bytes() {
                    rep.violation("proof-depends-on-assertion-order", json!({"ctx": ctx, "order_a": inst.spec.assertion_order, "order_b": s2.assertion_order}));
                }
            },
            (a, b) => rep.inconclusive("prover-did-not-produce-proofs (C01's business)", json!({"ctx": ctx, "a": format!("{a:?}").chars().take(80).collect::<String>(), "b": format!("{b:?}").chars().take(80).collect::<String>()})),
        }
    }
    if rep.samples.len() < rep.max_samples {
        rep.sample(ctx);
    }
}

pub fn run(args: &Args) {
    let mut rep = Report::new("C22", "c22",
        "random GenAir instances with up to 24 non-overlapping single / periodic / sequence assertions (any first step and stride, sequences up to n/2 values incl. >= 64) plus auxiliary assertions, base and quadratic constraint fields, 3 base fields: for EVERY derived constraint and EVERY trace-domain point: evaluate_at(g^s, asserted value) = 0 and (value + 1) != 0 on asserted steps; group divisor zero exactly on the group's steps, degree = their number; groups ordered by (stride, first step), constraints by column; coefficient k goes to the k-th assertion in that order; identical constraints for a shuffled assertion list; proofs byte-identical for reversed assertion lists; distinct = instances");
    let seed = args.seed();
    let max_log_n = args.u64("maxlogn", if args.thorough() { 11 } else { 8 }) as u32;
    let mut w = Worker::new(args, 100);
    for case in w.from..w.to {
        if !w.start(case, &mut rep) {
            continue;
        }
        let mut rng = Rng::for_case(seed, 2200, case);
        stark_dispatch!(one, case, &mut rep, &mut rng, case, max_log_n);
    }
    rep.finish(&args.out());
}
