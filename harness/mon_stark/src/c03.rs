//! C03: data revealed after the challenges must match the earlier commitments (STARK level).
//! Every forged proof is built from a transcript replay so that it is consistent with all
//! algebraic checks at the queried positions; the failpoint hook validates that (accepted with
//! exactly the targeted commitment checks off) before the forgery is judged (all checks on).
use genair::run::{gen_instance, prove, verify, ProveOutcome, VerifyOutcome};
use genair::{stark_dispatch, SpecRef};
use vcommon::{json, Args, Report, Rng, Value, Worker};
use vwf::{BaseFut, Fut};
use winter_air::proof::Proof;
use winter_crypto::ElementHasher;
use winter_fri::FriProof;
use winter_math::fields::{CubeExtension, QuadExtension};
use winter_math::FieldElement;
use winter_utils::{Deserializable, Serializable};
use winterfell::AcceptableOptions;

use crate::c01::{describe, params_for};
use crate::frih::{self, Geo};
use crate::replay::{open_queries, rebuild_queries, replay, Transcript};

const FP_TRACE: u32 = 4;
const FP_CONSTRAINT: u32 = 8;

fn set_failpoints(mask: u32) {
    #[cfg(winterfell_verif)]
    winter_utils::verif::set_skip_mask(mask);
    #[cfg(not(winterfell_verif))]
    let _ = mask;
}

struct Forgery {
    kind: String,
    proof: Proof,
    /// with exactly these checks off the forgery must be accepted (0 = not a crafted forgery)
    validate_with: u32,
    /// additional oracles: (checks switched off, expected rejecting error prefix)
    partial: Vec<(u32, &'static str)>,
}

fn uniform_nonzero<E: Fut>(rng: &mut Rng) -> E {
    loop {
        let p = E::spec().p;
        let mut v = [0u128; 3];
        for c in v.iter_mut().take(E::DEG) {
            *c = rng.below128(p);
        }
        let e = E::from_ref(v);
        if e != E::ZERO {
            return e;
        }
    }
}

fn forgeries<B, E, H>(rng: &mut Rng, proof: &Proof, t: &Transcript<E, H>) -> Result<Vec<Forgery>, String>
where
    B: BaseFut + Fut<B = B> + FieldElement<BaseField = B>,
    E: Fut<B = B> + FieldElement<BaseField = B>,
    H: ElementHasher<BaseField = B>,
{
    use winter_air::Air;
    let air = &t.air;
    let lde = air.lde_domain_size();
    let nq = t.positions.len();
    let mw = air.trace_info().main_trace_width();
    let aw = air.trace_info().aux_segment_width();
    let cw = air.context().num_constraint_composition_columns();
    let mut out = vec![];
    let (m_mp, m_rows) = open_queries::<B, H>(&proof.trace_queries[0], lde, nq, mw)?;
    let (c_mp, c_rows) = open_queries::<E, H>(&proof.constraint_queries, lde, nq, cw)?;
    let aux = if aw > 0 { Some(open_queries::<E, H>(&proof.trace_queries[1], lde, nq, aw)?) } else { None };
    let clone_mp = |mp: &winter_crypto::BatchMerkleProof<H>| winter_crypto::BatchMerkleProof::<H> { nodes: mp.nodes.clone(), depth: mp.depth };
    let j = rng.usize(nq);
    // ---- identity re-encoding (self-test of the surgeon): must still verify
    {
        let mut p = proof.clone();
        p.trace_queries[0] = rebuild_queries::<B, H>(clone_mp(&m_mp), m_rows.clone());
        p.constraint_queries = rebuild_queries::<E, H>(clone_mp(&c_mp), c_rows.clone());
        out.push(Forgery { kind: "identity".into(), proof: p, validate_with: 0, partial: vec![] });
    }
    // ---- main + constraint cells at one queried position, DEEP value unchanged:
    //      cc_main * d_main + cc_cons * d_cons = 0 with d_main in the base field
    {
        let (a, c) = (rng.usize(mw), rng.usize(cw));
        let dm = uniform_nonzero::<B>(rng);
        let dc = -(t.deep.trace[a] * E::from(dm)) / t.deep.constraints[c];
        let mut mr = m_rows.clone();
        mr[j][a] += dm;
        let mut cr = c_rows.clone();
        cr[j][c] += dc;
        let mut p = proof.clone();
        p.trace_queries[0] = rebuild_queries::<B, H>(clone_mp(&m_mp), mr);
        p.constraint_queries = rebuild_queries::<E, H>(clone_mp(&c_mp), cr);
        out.push(Forgery {
            kind: "main-and-constraint-cells-keeping-deep-value".into(),
            proof: p,
            validate_with: FP_TRACE | FP_CONSTRAINT,
            partial: vec![(FP_TRACE, "ConstraintQueryDoesNotMatchCommitment"), (FP_CONSTRAINT, "TraceQueryDoesNotMatchCommitment")],
        });
    }
    // ---- two main cells (only when the constraint field is the base field)
    if E::DEG == 1 && mw >= 2 {
        let a = rng.usize(mw);
        let b = (a + 1 + rng.usize(mw - 1)) % mw;
        let da = uniform_nonzero::<E>(rng);
        let db = -(t.deep.trace[a] * da) / t.deep.trace[b];
        let to_base = |e: E| B::from_int(e.to_ref()[0]);
        let mut mr = m_rows.clone();
        mr[j][a] += to_base(da);
        mr[j][b] += to_base(db);
        let mut p = proof.clone();
        p.trace_queries[0] = rebuild_queries::<B, H>(clone_mp(&m_mp), mr);
        out.push(Forgery { kind: "two-main-cells-keeping-deep-value".into(), proof: p, validate_with: FP_TRACE, partial: vec![] });
    }
    // ---- auxiliary + constraint cells
    if let Some((a_mp, a_rows)) = &aux {
        let (a, c) = (rng.usize(aw), rng.usize(cw));
        let da = uniform_nonzero::<E>(rng);
        let dc = -(t.deep.trace[mw + a] * da) / t.deep.constraints[c];
        let mut ar = a_rows.clone();
        ar[j][a] += da;
        let mut cr = c_rows.clone();
        cr[j][c] += dc;
        let mut p = proof.clone();
        p.trace_queries[1] = rebuild_queries::<E, H>(clone_mp(a_mp), ar);
        p.constraint_queries = rebuild_queries::<E, H>(clone_mp(&c_mp), cr);
        out.push(Forgery {
            kind: "aux-and-constraint-cells-keeping-deep-value".into(),
            proof: p,
            validate_with: FP_TRACE | FP_CONSTRAINT,
            partial: vec![(FP_CONSTRAINT, "TraceQueryDoesNotMatchCommitment")],
        });
    }
    // ---- two constraint composition cells
    if cw >= 2 {
        let a = rng.usize(cw);
        let b = (a + 1 + rng.usize(cw - 1)) % cw;
        let da = uniform_nonzero::<E>(rng);
        let db = -(t.deep.constraints[a] * da) / t.deep.constraints[b];
        let mut cr = c_rows.clone();
        cr[j][a] += da;
        cr[j][b] += db;
        let mut p = proof.clone();
        p.constraint_queries = rebuild_queries::<E, H>(clone_mp(&c_mp), cr);
        out.push(Forgery { kind: "two-constraint-cells-keeping-deep-value".into(), proof: p, validate_with: FP_CONSTRAINT, partial: vec![] });
    }
    // ---- naive: two opened rows swapped
    if nq >= 2 {
        let k = (j + 1) % nq;
        if m_rows[j] != m_rows[k] {
            let mut mr = m_rows.clone();
            mr.swap(j, k);
            let mut p = proof.clone();
            p.trace_queries[0] = rebuild_queries::<B, H>(clone_mp(&m_mp), mr);
            out.push(Forgery { kind: "main-rows-swapped".into(), proof: p, validate_with: 0, partial: vec![] });
        }
    }
    // ---- FRI data inside the proof: reuse the standalone attack builder on the FRI part
    let o = air.options();
    let geo = Geo { d: air.trace_length(), blowup: o.blowup_factor(), folding: o.to_fri_options().folding_factor(), rem: o.to_fri_options().remainder_max_degree() };
    let fri_bytes = proof.fri_proof.to_bytes();
    let run = frih::Run::<E, H> {
        geo: geo.clone(),
        evaluations: vec![],
        positions: t.positions.clone(),
        commitments: t.fri_commitments.clone(),
        proof: proof.fri_proof.clone(),
        proof_bytes: fri_bytes,
    };
    for a in crate::fri_attacks::attacks::<E, H>(rng, &run, &t.fri_alphas) {
        if let Ok(fp) = FriProof::read_from_bytes(&a.bytes) {
            let mut p = proof.clone();
            p.fri_proof = fp;
            out.push(Forgery { kind: format!("fri:{}", a.kind), proof: p, validate_with: a.validate_with, partial: vec![] });
        }
    }
    Ok(out)
}

fn run_forgeries<B, E, H>(rep: &mut Report, rng: &mut Rng, proof: &Proof, spec: &SpecRef, acc: &AcceptableOptions, ctx: &Value)
where
    B: BaseFut + Fut<B = B> + FieldElement<BaseField = B>,
    E: Fut<B = B> + FieldElement<BaseField = B>,
    H: ElementHasher<BaseField = B> + Sync + Send,
{
    let t = match replay::<B, E, H>(proof, spec) {
        Ok(t) => t,
        Err(e) => {
            rep.inconclusive("transcript-replay-failed (harness)", json!({"ctx": ctx, "error": e}));
            return;
        },
    };
    let fs = match forgeries::<B, E, H>(rng, proof, &t) {
        Ok(f) => f,
        Err(e) => {
            rep.inconclusive("proof-surgery-failed (harness)", json!({"ctx": ctx, "error": e}));
            return;
        },
    };
    for f in fs {
        rep.evals(1);
        let d = json!({"ctx": ctx, "forgery": f.kind});
        if f.kind == "identity" {
            if verify::<B, H>(f.proof, spec, acc) != VerifyOutcome::Accept {
                rep.inconclusive("identity-re-encoding-not-accepted (harness)", d);
                return;
            }
            rep.count("surgeon_self_tests_passed");
            continue;
        }
        if f.validate_with != 0 && cfg!(winterfell_verif) {
            set_failpoints(f.validate_with);
            let r = verify::<B, H>(f.proof.clone(), spec, acc);
            set_failpoints(0);
            if r != VerifyOutcome::Accept {
                rep.inconclusive(&format!("forgery-not-consistent-with-other-checks|{}", f.kind), json!({"d": d, "with_checks_off": format!("{r:?}")}));
                continue;
            }
            rep.count(&format!("validated_with_checks_off:{}", f.kind));
            // each targeted check alone must be enough to reject
            for (mask, want) in &f.partial {
                set_failpoints(*mask);
                let r = verify::<B, H>(f.proof.clone(), spec, acc);
                set_failpoints(0);
                rep.evals(1);
                match r {
                    VerifyOutcome::Reject(e) if e.contains(want) => rep.count(&format!("single_check_rejects:{want}")),
                    other => rep.violation(&format!("remaining-commitment-check-does-not-reject|{}|expected-{want}", f.kind), json!({"d": d, "outcome": format!("{other:?}")})),
                }
            }
        }
        match verify::<B, H>(f.proof, spec, acc) {
            VerifyOutcome::Reject(e) => rep.count(&format!("rejected:{}:{}", f.kind, e.split(['(', '{']).next().unwrap_or("?").trim())),
            VerifyOutcome::Accept => rep.violation(&format!("accepted|{}", f.kind), d),
            VerifyOutcome::Panic(p) => rep.violation(&format!("{p}|{}", f.kind), d),
        }
    }
}

fn one<B, H>(rep: &mut Report, rng: &mut Rng, case: u64, max_log_n: u32, name: &str)
where
    B: BaseFut + Fut<B = B> + FieldElement<BaseField = B>,
    H: ElementHasher<BaseField = B> + Sync + Send,
    QuadExtension<B>: Fut<B = B> + FieldElement<BaseField = B>,
{
    let gp = params_for(rng, case, max_log_n, cfg!(debug_assertions));
    let mut inst = gen_instance(rng, B::SPEC, &gp);
    // the cubic extension is handled by `one_cubic`
    if inst.opts.ext == 2 {
        inst.opts.ext = (case % 2) as u8;
    }
    if !inst.opts.valid_for(&inst.spec) {
        return;
    }
    let ctx = describe(&inst, name);
    rep.distinct_key(format!("{ctx}").as_bytes());
    let options = inst.opts.build();
    let proof = match prove::<B, H>(&inst.spec, &inst.main, options.clone(), None) {
        ProveOutcome::Proof(p) => *p,
        other => {
            rep.inconclusive("prover-did-not-produce-a-proof (C01's business)", json!({"ctx": ctx, "outcome": format!("{other:?}").chars().take(100).collect::<String>()}));
            return;
        },
    };
    let acc = AcceptableOptions::OptionSet(vec![options]);
    rep.count(&format!("ext:{}", inst.opts.ext));
    rep.count(&format!("folding:{}", inst.opts.folding));
    match inst.opts.ext {
        0 => run_forgeries::<B, B, H>(rep, rng, &proof, &inst.spec, &acc, &ctx),
        _ => run_forgeries::<B, QuadExtension<B>, H>(rep, rng, &proof, &inst.spec, &acc, &ctx),
    }
    if rep.samples.len() < rep.max_samples {
        rep.sample(ctx);
    }
}

fn one_cubic<B, H>(rep: &mut Report, rng: &mut Rng, case: u64, max_log_n: u32, name: &str)
where
    B: BaseFut + Fut<B = B> + FieldElement<BaseField = B>,
    H: ElementHasher<BaseField = B> + Sync + Send,
    CubeExtension<B>: Fut<B = B> + FieldElement<BaseField = B>,
{
    let gp = params_for(rng, case, max_log_n, cfg!(debug_assertions));
    let mut inst = gen_instance(rng, B::SPEC, &gp);
    inst.opts.ext = 2;
    if !inst.opts.valid_for(&inst.spec) {
        return;
    }
    let ctx = describe(&inst, name);
    rep.distinct_key(format!("{ctx}").as_bytes());
    let options = inst.opts.build();
    if let ProveOutcome::Proof(p) = prove::<B, H>(&inst.spec, &inst.main, options.clone(), None) {
        rep.count("ext:2");
        run_forgeries::<B, CubeExtension<B>, H>(rep, rng, &p, &inst.spec, &AcceptableOptions::OptionSet(vec![options]), &ctx);
    }
}

pub fn run(args: &Args) {
    use winter_crypto::hashers::{Blake3_256, Rp62_248, RpJive64_256};
    use winter_math::fields::{f62, f64 as f64m};
    let mut rep = Report::new("C03", "c03",
        "per honest GenAir proof (as C01; base, quadratic and cubic constraint fields, 11 field/hasher pairs) the transcript is replayed (aux randomness, z, DEEP coefficients, FRI alphas, query positions) and the revealed data is edited so that every algebraic check still holds at the queried positions: main + constraint cells and auxiliary + constraint cells with cc_a*d_a + cc_b*d_b = 0 (DEEP value unchanged), two main cells, two constraint cells, swapped rows; inside the FRI part: value changed, rows swapped, row crafted to keep its fold at alpha (every layer), remainder coefficient changed, remainder = R + c*prod(x - x_i) over the queried final points, leading zeros trimmed; each crafted forgery must be ACCEPTED with exactly the targeted commitment checks switched off (failpoint hook; otherwise inconclusive), REJECTED by each remaining single check, and REJECTED with all checks on; identity re-encoding must verify (surgeon self-test); evaluation = one verification; distinct = instances");
    let seed = args.seed();
    let max_log_n = args.u64("maxlogn", if args.thorough() { 10 } else { 7 }) as u32;
    let mut w = Worker::new(args, 60);
    for case in w.from..w.to {
        if !w.start(case, &mut rep) {
            continue;
        }
        let mut rng = Rng::for_case(seed, 300, case);
        match case % 9 {
            7 => one_cubic::<f64m::BaseElement, RpJive64_256>(&mut rep, &mut rng, case, max_log_n, "f64^3/RpJive64_256"),
            8 => match case % 2 {
                0 => one_cubic::<f62::BaseElement, Rp62_248>(&mut rep, &mut rng, case, max_log_n.min(6), "f62^3/Rp62_248"),
                _ => one_cubic::<f64m::BaseElement, Blake3_256<f64m::BaseElement>>(&mut rep, &mut rng, case, max_log_n, "f64^3/Blake3_256"),
            },
            _ => stark_dispatch!(one, case, &mut rep, &mut rng, case, max_log_n),
        }
    }
    rep.extra.insert("failpoint_validation".into(), json!(cfg!(winterfell_verif)));
    rep.finish(&args.out());
}
