//! A small pool of honest proofs (with their specifications and component layout) that the
//! hostile-input monitors mutate. Built once per worker process, deterministically from the seed.
use genair::run::{gen_instance, prove, Instance, ProveOutcome};
use genair::spec::GenParams;
use genair::SpecRef;
use vcommon::Rng;
use vwf::BaseFut;
use winter_crypto::ElementHasher;
use winter_utils::Serializable;
use winterfell::{Proof, ProofOptions};

#[allow(dead_code)]
pub struct Honest {
    pub spec: SpecRef,
    pub inst: Instance,
    pub options: ProofOptions,
    pub proof: Proof,
    pub bytes: Vec<u8>,
    /// (component name, start offset) in `bytes`, in order, plus the end
    pub layout: Vec<(&'static str, usize)>,
}

pub fn layout_of(p: &Proof) -> Vec<(&'static str, usize)> {
    let mut out = vec![];
    let mut at = 0;
    let mut push = |name: &'static str, len: usize| {
        out.push((name, at));
        at += len;
    };
    push("context", p.context.to_bytes().len());
    push("num_unique_queries", 1);
    push("commitments", p.commitments.to_bytes().len());
    for (i, q) in p.trace_queries.iter().enumerate() {
        push(if i == 0 { "main_trace_queries" } else { "aux_trace_queries" }, q.to_bytes().len());
    }
    push("constraint_queries", p.constraint_queries.to_bytes().len());
    push("ood_frame", p.ood_frame.to_bytes().len());
    push("fri_proof", p.fri_proof.to_bytes().len());
    push("pow_nonce", 8);
    push("end", 0);
    out
}

/// one honest proof for field B / hasher H with the given shape knobs
pub fn make<B, H>(rng: &mut Rng, shape: u64) -> Option<Honest>
where
    B: BaseFut,
    H: ElementHasher<BaseField = B> + Sync + Send,
{
    for _ in 0..20 {
        let gp = GenParams {
            log_n: 3 + (shape % 4) as u32,
            max_width: *rng.pick(&[1usize, 3, 6]),
            max_degree: if shape % 5 == 4 { 6 } else { *rng.pick(&[1usize, 2, 3]) },
            periodic: shape % 3 == 0,
            aux: shape % 2 == 1,
            exemptions: 1 + (shape % 3) as usize,
            long_sequence: false,
            max_blowup: 8,
            exact: cfg!(debug_assertions),
            max_assertions: 0,
            long_cycles: false,
        };
        let mut inst = gen_instance(rng, B::SPEC, &gp);
        inst.opts.queries = inst.opts.queries.clamp(2, 12);
        inst.opts.grinding = (shape % 3) as u32 * 2;
        if !inst.opts.valid_for(&inst.spec) {
            continue;
        }
        let options = inst.opts.build();
        if let ProveOutcome::Proof(p) = prove::<B, H>(&inst.spec, &inst.main, options.clone(), None) {
            let bytes = p.to_bytes();
            let layout = layout_of(&p);
            return Some(Honest { spec: inst.spec.clone(), inst, options, proof: *p, bytes, layout });
        }
    }
    None
}
