//! A small pool of honest proofs (with their specifications and component layout) that the
//! hostile-input monitors mutate. Built once per worker process, deterministically from the seed.
use genair::run::{gen_instance, prove, Instance, ProveOutcome};
use genair::spec::GenParams;
use genair::SpecRef;
use vcommon::Rng;
use vwf::BaseFut;
use winter_crypto::ElementHasher;
use winter_utils::Serializable;
use winterfell::{Proof, ProofOptions};

#[allow(dead_code)]
pub struct Honest {
    pub spec: SpecRef,
    pub inst: Instance,
    pub options: ProofOptions,
    pub proof: Proof,
    pub bytes: Vec<u8>,
    /// (component name, start offset) in `bytes`, in order, plus the end
    pub layout: Vec<(&'static str, usize)>,
    /// offsets of nested headers (opening-proof depth bytes, node-vector counts, inner length
    /// prefixes, frame-size bytes, FRI layer headers), found by walking the encoding
    pub nested: Vec<(String, usize)>,
}

pub fn layout_of(p: &Proof) -> Vec<(&'static str, usize)> {
    let mut out = vec![];
    let mut at = 0;
    let mut push = |name: &'static str, len: usize| {
        out.push((name, at));
        at += len;
    };
    push("context", p.context.to_bytes().len());
    push("num_unique_queries", 1);
    push("commitments", p.commitments.to_bytes().len());
    for (i, q) in p.trace_queries.iter().enumerate() {
        push(if i == 0 { "main_trace_queries" } else { "aux_trace_queries" }, q.to_bytes().len());
    }
    push("constraint_queries", p.constraint_queries.to_bytes().len());
    push("ood_frame", p.ood_frame.to_bytes().len());
    push("fri_proof", p.fri_proof.to_bytes().len());
    push("pow_nonce", 8);
    push("end", 0);
    out
}

/// one honest proof for field B / hasher H with the given shape knobs
pub fn make<B, H>(rng: &mut Rng, shape: u64) -> Option<Honest>
where
    B: BaseFut,
    H: ElementHasher<BaseField = B> + Sync + Send,
{
    for _ in 0..20 {
        let gp = GenParams {
            log_n: 3 + (shape % 4) as u32,
            max_width: *rng.pick(&[1usize, 3, 6]),
            max_degree: if shape % 5 == 4 { 6 } else { *rng.pick(&[1usize, 2, 3]) },
            periodic: shape % 3 == 0,
            aux: shape % 2 == 1,
            exemptions: 1 + (shape % 3) as usize,
            long_sequence: false,
            max_blowup: 8,
            exact: cfg!(debug_assertions),
            max_assertions: 0,
            long_cycles: false,
        };
        let mut inst = gen_instance(rng, B::SPEC, &gp);
        // one proof shape in five has a single query (single-index openings everywhere)
        inst.opts.queries = if shape % 5 == 3 { 1 } else { inst.opts.queries.clamp(2, 12) };
        inst.opts.grinding = (shape % 3) as u32 * 2;
        if !inst.opts.valid_for(&inst.spec) {
            continue;
        }
        let options = inst.opts.build();
        if let ProveOutcome::Proof(p) = prove::<B, H>(&inst.spec, &inst.main, options.clone(), None) {
            let bytes = p.to_bytes();
            let layout = layout_of(&p);
            let nested = nested_offsets(&bytes, &layout);
            return Some(Honest { spec: inst.spec.clone(), inst, options, proof: *p, bytes, layout, nested });
        }
    }
    None
}

fn vint(bytes: &[u8], at: usize) -> Option<(usize, usize)> {
    let first = *bytes.get(at)?;
    let len = first.trailing_zeros() as usize + 1;
    if len == 9 {
        let v = u64::from_le_bytes(bytes.get(at + 1..at + 9)?.try_into().ok()?);
        Some((v as usize, 9))
    } else {
        let mut enc = [0u8; 8];
        enc[..len].copy_from_slice(bytes.get(at..at + len)?);
        Some(((u64::from_le_bytes(enc) >> len) as usize, len))
    }
}

/// header offsets inside a serialized batch Merkle proof starting at `at`
fn batch_proof_offsets(bytes: &[u8], at: usize, tag: &str, out: &mut Vec<(String, usize)>) {
    out.push((format!("{tag}.depth"), at));
    out.push((format!("{tag}.node-vector-count"), at + 1));
    if let Some((_, l)) = vint(bytes, at + 1) {
        out.push((format!("{tag}.first-vector-length"), at + 1 + l));
    }
}

/// walks the documented encodings of the components and returns the offsets of nested headers
pub fn nested_offsets(bytes: &[u8], layout: &[(&'static str, usize)]) -> Vec<(String, usize)> {
    let mut out = vec![];
    for w in layout.windows(2) {
        let (name, s) = (w[0].0, w[0].1);
        if name.ends_with("queries") {
            // Vec<u8> values, Vec<u8> opening proof
            if let Some((vl, l1)) = vint(bytes, s) {
                let p = s + l1 + vl;
                out.push((format!("{name}.opening-length"), p));
                if let Some((_, l2)) = vint(bytes, p) {
                    batch_proof_offsets(bytes, p + l2, &format!("{name}.opening"), &mut out);
                }
            }
        } else if name == "ood_frame" {
            out.push(("ood_frame.trace-frame-size".into(), s + 2));
            if let Some(b) = bytes.get(s..s + 2) {
                let tl = u16::from_le_bytes([b[0], b[1]]) as usize;
                out.push(("ood_frame.constraint-length".into(), s + 2 + tl));
                out.push(("ood_frame.constraint-frame-size".into(), s + 2 + tl + 2));
            }
        } else if name == "fri_proof" {
            let nlayers = bytes[s] as usize;
            let mut at = s + 1;
            for i in 0..nlayers {
                let rd = |a: usize| bytes.get(a..a + 4).map(|b| u32::from_le_bytes(b.try_into().unwrap()) as usize);
                let Some(vl) = rd(at) else { break };
                out.push((format!("fri.layer{i}.values-length"), at));
                let pa = at + 4 + vl;
                let Some(pl) = rd(pa) else { break };
                out.push((format!("fri.layer{i}.paths-length"), pa));
                batch_proof_offsets(bytes, pa + 4, &format!("fri.layer{i}.opening"), &mut out);
                at = pa + 4 + pl;
            }
            out.push(("fri.remainder-length".into(), at));
            out.push(("fri.partition-exponent".into(), w[1].1 - 1));
        }
    }
    out.retain(|(_, o)| *o < bytes.len());
    out
}
