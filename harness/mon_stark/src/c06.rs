//! C06: proof bytes are independent of threading and build features. This stage is an emitter:
//! it proves a fixed, seed-determined list of instances and records digests; the driver runs it
//! under the serial, concurrent (several thread counts) and async builds and an offline checker
//! compares the logs (prefix digests across all runs; whole-proof digests per nonce).
use genair::run::{gen_instance, prove, verify, ProveOutcome, VerifyOutcome};
use genair::spec::GenParams;
use genair::stark_dispatch;
use vcommon::{fnv, json, Args, Report, Rng};
use vwf::BaseFut;
use winter_crypto::ElementHasher;
use winter_utils::Serializable;
use winterfell::AcceptableOptions;

type Digests = std::collections::BTreeMap<String, String>;

fn one<B, H>(rep: &mut Report, digests: &mut Digests, rng: &mut Rng, case: u64, log_n: u32, name: &str)
where
    B: BaseFut,
    H: ElementHasher<BaseField = B> + Sync + Send,
{
    let gp = GenParams {
        log_n,
        max_width: *rng.pick(&[2usize, 5, 9, 12]),
        max_degree: *rng.pick(&[2usize, 3, 4]),
        periodic: rng.bool() || log_n >= 11,
        aux: rng.chance(1, 3),
        exemptions: *rng.pick(&[1usize, 1, 2]),
        long_sequence: rng.chance(1, 4),
        max_blowup: 16,
        exact: false,
        max_assertions: 0,
        long_cycles: log_n >= 11,
    };
    let mut inst = gen_instance(rng, B::SPEC, &gp);
    // grinding on in two thirds of the cases (the concurrent nonce search may return any nonce)
    inst.opts.grinding = *rng.pick(&[0u32, 5, 9]);
    inst.opts.queries = inst.opts.queries.clamp(4, 60);
    if !inst.opts.valid_for(&inst.spec) {
        rep.count("skipped_invalid_options");
        return;
    }
    let options = inst.opts.build();
    let ctx = json!({"case": case, "inst": name, "n": inst.spec.n(), "lde": inst.spec.n() * inst.opts.blowup, "width": inst.spec.width, "aux": inst.spec.aux.len(), "opts": format!("{:?}", inst.opts)});
    rep.case(format!("{ctx}").as_bytes(), true);
    rep.count(&format!("log_lde:{}", (inst.spec.n() * inst.opts.blowup).ilog2()));
    let proof = match prove::<B, H>(&inst.spec, &inst.main, options.clone(), None) {
        ProveOutcome::Proof(p) => *p,
        other => {
            rep.inconclusive("prover-did-not-produce-a-proof (C01's business)", json!({"ctx": ctx, "outcome": format!("{other:?}").chars().take(100).collect::<String>()}));
            return;
        },
    };
    let mut prefix = proof.context.to_bytes();
    prefix.extend(proof.commitments.to_bytes());
    prefix.extend(proof.ood_frame.to_bytes());
    prefix.push(proof.num_unique_queries.min(0)); // (unique-query count depends on the nonce: not part of the prefix)
    let full = proof.to_bytes();
    digests.insert(format!("case{case}-logn{log_n}/prefix"), format!("{:016x}", fnv(&prefix)));
    digests.insert(format!("case{case}-logn{log_n}/full@nonce{}", proof.pow_nonce), format!("{:016x}", fnv(&full)));
    rep.count(if proof.pow_nonce == 0 { "nonce_zero" } else { "nonce_nonzero" });
    let nonces = rep.extra.entry("nonces").or_insert_with(|| json!({}));
    nonces[format!("case{case}")] = json!(proof.pow_nonce.to_string());
    match verify::<B, H>(proof, &inst.spec, &AcceptableOptions::OptionSet(vec![options])) {
        VerifyOutcome::Accept => {},
        other => rep.violation("proof-from-this-build-not-accepted", json!({"ctx": ctx, "outcome": format!("{other:?}")})),
    }
    if rep.samples.len() < rep.max_samples {
        rep.sample(ctx);
    }
}

pub fn run(args: &Args) {
    let mut rep = Report::new("C06", "c06",
        "a fixed seed-determined list of GenAir instances with trace lengths 2^6..2^12 (thorough 2^14), blowup up to 16 (LDE domains 2^7..2^16 (2^18): both sides of the 1024-point FFT / 1024-leaf Merkle / 1024-row transposition / fragment thresholds), grinding 0 / 5 / 9, partitions, auxiliary segments, 11 field/hasher pairs; each build and thread count proves every instance and logs digest(context || commitments || OOD frame) and digest(proof) keyed by nonce; every proof is verified; distinct = instances");
    let seed = args.seed();
    let n = args.budget(44, 300);
    let max_log = args.u64("maxlogn", if args.thorough() { 14 } else { 12 }) as u32;
    let mut digests = Digests::new();
    for case in 0..n {
        let mut rng = Rng::for_case(seed, 600, case);
        let log_n = match case % 6 { 0 => 6, 1 => 9, 2 => 10, 3 => 11, 4 => max_log, _ => 7 + (case / 6 % 6) as u32 }.min(max_log);
        stark_dispatch!(one, case, &mut rep, &mut digests, &mut rng, case, log_n);
    }
    rep.extra.insert("digests".into(), json!(digests));
    rep.extra.insert("build".into(), json!({"concurrent": cfg!(feature = "concurrent"), "async": cfg!(feature = "async"), "threads": std::env::var("RAYON_NUM_THREADS").ok()}));
    rep.finish(&args.out());
}
