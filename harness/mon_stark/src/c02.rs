//! C02: proofs of unsatisfied statements are rejected (release pipeline, no debug self-checks).
use std::sync::Arc;

use genair::checker::check_main;
use genair::run::{gen_instance, prove, prove_aux_delta, verify, ProveOutcome, VerifyOutcome};
use genair::spec::Spec;
use genair::stark_dispatch;
use vcommon::{json, Args, Report, Rng, Value, Worker};
use vwf::BaseFut;
use winter_crypto::ElementHasher;
use winterfell::AcceptableOptions;

use crate::c01::{describe, params_for};
use crate::corrupt::{apply, corruptions};

fn judge_reject(rep: &mut Report, what: &str, ctx: &Value, out: VerifyOutcome) {
    rep.evals(1);
    match out {
        VerifyOutcome::Reject(e) => rep.count(&format!("rejected_by:{}", e.split('(').next().unwrap_or("?"))),
        VerifyOutcome::Accept => rep.violation(&format!("accepted|{}", what.split(':').take(2).collect::<Vec<_>>().join(":")), json!({"ctx": ctx, "what": what})),
        VerifyOutcome::Panic(p) => rep.violation(&format!("{p}|verifier|{}", what.split(':').next().unwrap_or("?")), json!({"ctx": ctx, "what": what})),
    }
}

fn one<B, H>(rep: &mut Report, rng: &mut Rng, case: u64, max_log_n: u32, name: &str)
where
    B: BaseFut,
    H: ElementHasher<BaseField = B> + Sync + Send,
{
    let gp = params_for(rng, case, max_log_n, false);
    let inst = gen_instance(rng, B::SPEC, &gp);
    let ctx = describe(&inst, name);
    let spec = &inst.spec;
    let p = spec.p();
    rep.distinct_key(format!("{ctx}").as_bytes());
    rep.count(&format!("inst:{name}"));
    if !check_main(spec, &inst.main).is_empty() {
        rep.inconclusive("generator-produced-unsatisfying-trace (harness bug)", ctx.clone());
        return;
    }
    let options = inst.opts.build();
    let acc = AcceptableOptions::OptionSet(vec![options.clone()]);
    // ---- corrupted main traces
    for c in corruptions(spec, rng) {
        let bad = apply(&inst.main, &c, p, rng);
        let v = check_main(spec, &bad);
        if v.is_empty() {
            // still a true statement (free cell / exempt row): must still verify (C01's side)
            rep.count("corruption_leaves_statement_true");
            rep.evals(1);
            match prove::<B, H>(spec, &bad, options.clone(), None) {
                ProveOutcome::Proof(pr) => match verify::<B, H>(*pr, spec, &acc) {
                    VerifyOutcome::Accept => {},
                    other => rep.violation(&format!("true-statement-after-harmless-edit-rejected|{}", c.class.split(':').take(2).collect::<Vec<_>>().join(":")), json!({"ctx": ctx, "class": c.class, "outcome": format!("{other:?}")})),
                },
                ProveOutcome::Error(e) => rep.violation("prover-error-on-true-statement", json!({"ctx": ctx, "class": c.class, "error": e})),
                ProveOutcome::Panic(pn) => rep.violation(&format!("{}|prover-on-true-statement", pn.sig()), json!({"ctx": ctx, "class": c.class})),
            }
            continue;
        }
        rep.count(&format!("false_statement:{}", c.class.split(':').take(2).collect::<Vec<_>>().join(":")));
        match prove::<B, H>(spec, &bad, options.clone(), None) {
            ProveOutcome::Proof(pr) => judge_reject(rep, &format!("corrupted-trace:{}", c.class), &ctx, verify::<B, H>(*pr, spec, &acc)),
            // the prover refusing is an allowed outcome
            ProveOutcome::Error(_) => rep.count("prover_refused:error"),
            ProveOutcome::Panic(pn) => rep.count(&format!("prover_refused:panic:{}", pn.rel_file())),
        }
    }
    // ---- corrupted auxiliary segment
    if !spec.aux.is_empty() {
        let (n, e) = (spec.n(), spec.exemptions);
        for row in [0usize, 1, n - e, n - 1, if e >= 2 { n - e + 1 } else { n / 2 }] {
            let col = rng.usize(spec.aux.len());
            // definition: the edited cell breaks the statement iff it is asserted (row 0) or is
            // the "next" cell of a non-exempt step (row <= n - e)
            let breaks = row <= n - e;
            match prove::<B, H>(spec, &inst.main, options.clone(), Some((col, row))) {
                ProveOutcome::Proof(pr) => {
                    let out = verify::<B, H>(*pr, spec, &acc);
                    if breaks {
                        rep.count("false_statement:aux-cell");
                        judge_reject(rep, &format!("corrupted-aux-cell:row{}", if row == 0 { "0" } else { "k" }), &ctx, out);
                    } else {
                        rep.evals(1);
                        rep.count("corruption_leaves_statement_true");
                        if out != VerifyOutcome::Accept {
                            rep.violation("true-statement-after-harmless-edit-rejected|aux-exempt-row", json!({"ctx": ctx, "row": row, "outcome": format!("{out:?}")}));
                        }
                    }
                },
                ProveOutcome::Error(_) => rep.count("prover_refused:error"),
                ProveOutcome::Panic(pn) => rep.count(&format!("prover_refused:panic:{}", pn.rel_file())),
            }
        }
    }
    // ---- coordinated corruption of a main and an auxiliary constraint: main constraint j is
    // violated by +delta and auxiliary constraint k by -delta on the same (last non-exempt)
    // step. Both cells sit in row n - e, which is read as "current" only by exempt steps, so
    // nothing else changes. The two violations cancel in any linear combination that gives the
    // two constraints the same coefficient; with independent coefficients it must be rejected.
    if !spec.aux.is_empty() {
        let (n, e) = (spec.n(), spec.exemptions);
        let row = n - e;
        for k in 0..spec.aux.len() {
            for j in [k, rng.usize(spec.constraints.len())] {
                if j >= spec.constraints.len() {
                    continue;
                }
                let t = spec.constraints[j].target;
                let delta = 1 + rng.below128(p - 1);
                let mut bad = inst.main.clone();
                bad[t][row] = (bad[t][row] + delta) % p;
                // the constraints of other targets read row n - e only on exempt steps, but
                // another constraint may have the same target: the checker decides
                let v = check_main(spec, &bad);
                if v.is_empty() {
                    continue;
                }
                rep.count("false_statement:main-and-aux-cancelling");
                match prove_aux_delta::<B, H>(spec, &bad, options.clone(), Some((k, row)), p - delta) {
                    ProveOutcome::Proof(pr) => judge_reject(rep, &format!("main-and-aux-cancelling:{}", if j == k { "same-index" } else { "other-index" }), &ctx, verify::<B, H>(*pr, spec, &acc)),
                    ProveOutcome::Error(_) => rep.count("prover_refused:error"),
                    ProveOutcome::Panic(pn) => rep.count(&format!("prover_refused:panic:{}", pn.rel_file())),
                }
            }
        }
    }
    // ---- honest proof, other public inputs
    if let ProveOutcome::Proof(pr) = prove::<B, H>(spec, &inst.main, options.clone(), None) {
        let mut variants: Vec<(&str, Spec)> = vec![];
        let base: &Spec = spec;
        {
            let mut s = base.clone();
            let i = rng.usize(s.assertions.len());
            let j = rng.usize(s.assertions[i].values.len());
            s.assertions[i].values[j] = (s.assertions[i].values[j] + 1) % p;
            variants.push(("asserted-value", s));
        }
        {
            let mut s = base.clone();
            let i = rng.usize(s.constraints.len());
            s.constraints[i].constant = (s.constraints[i].constant + 1) % p;
            variants.push(("constraint-constant", s));
        }
        {
            let mut s = base.clone();
            let i = rng.usize(s.assertions.len());
            if s.assertions[i].kind == 0 {
                s.assertions[i].first = (s.assertions[i].first + 1) % s.n();
                if !s.assertions.iter().enumerate().any(|(k, a)| k != i && a.col == s.assertions[i].col && a.steps(s.n()).contains(&s.assertions[i].first)) {
                    variants.push(("asserted-step", s));
                }
            }
        }
        if !base.periodic.is_empty() {
            let mut s = base.clone();
            s.periodic[0][0] = (s.periodic[0][0] + 1) % p;
            variants.push(("periodic-value", s));
        }
        for (what, s2) in variants {
            // the edited statement must be false for the proved trace, per the checker
            if check_main(&s2, &inst.main).is_empty() {
                rep.count("public_input_edit_leaves_statement_true");
                continue;
            }
            rep.count(&format!("false_statement:public-input:{what}"));
            judge_reject(rep, &format!("other-public-inputs:{what}"), &ctx, verify::<B, H>((*pr).clone(), &Arc::new(s2), &acc));
        }
    }
    if rep.samples.len() < rep.max_samples {
        rep.sample(ctx);
    }
}

pub fn run(args: &Args) {
    let mut rep = Report::new("C02", "c02",
        "per random GenAir instance (as C01): every corruption class (single cell at first / interior / last non-exempt / next-of-last-non-exempt / first fully exempt / last row in a constrained and in a random column; an asserted cell of every assertion; a whole row; a whole column; two rows) classified by the independent checker: unsatisfying => prover (release, no validation) + verifier must not accept; still satisfying => must still verify; auxiliary cells at rows {0,1,n-e,n-e+1,n-1}; main constraint j violated by +delta and auxiliary constraint k by -delta on the same step (cancel under any combination that shares a coefficient between them), j = k and random j; honest proof verified against public inputs with an asserted value / constraint constant / asserted step / periodic value changed; evaluation = one verification of a false (or still true) statement; distinct = instances");
    let seed = args.seed();
    let max_log_n = args.u64("maxlogn", if args.thorough() { 10 } else { 7 }) as u32;
    let mut w = Worker::new(args, 40);
    for case in w.from..w.to {
        if !w.start(case, &mut rep) {
            continue;
        }
        let mut rng = Rng::for_case(seed, 200, case);
        stark_dispatch!(one, case, &mut rep, &mut rng, case, max_log_n);
    }
    rep.finish(&args.out());
}
