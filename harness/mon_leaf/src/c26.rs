//! C26: primitive encodings round-trip, consume exactly their bytes, use the documented vint64
//! length, and malformed input is an error, never a panic/abort.
use std::collections::{BTreeMap, BTreeSet};
use std::fmt::Debug;

use vcommon::{guard, hex, json, Args, Report, Rng};
use winter_utils::{ByteReader, Deserializable, DeserializationError, Serializable, SliceReader};

use vcommon::Worker;

/// booleans are only reachable through read_bool/write_bool; wrap them so that the generic
/// oracle applies
#[derive(Debug, PartialEq, Clone, Copy, PartialOrd, Ord, Eq)]
struct B(bool);
impl Serializable for B {
    fn write_into<W: winter_utils::ByteWriter>(&self, target: &mut W) {
        target.write_bool(self.0)
    }
}
impl Deserializable for B {
    fn read_from<R: ByteReader>(source: &mut R) -> Result<Self, DeserializationError> {
        Ok(B(source.read_bool()?))
    }
}

/// documented vint64 encoding, written independently of the code under test
fn ref_vint64(v: u64) -> Vec<u8> {
    let bits = 64 - v.leading_zeros() as usize;
    let len = if bits <= 7 { 1 } else if bits > 56 { 9 } else { bits.div_ceil(7) };
    if len == 9 {
        let mut out = vec![0u8];
        out.extend_from_slice(&v.to_le_bytes());
        out
    } else {
        let x: u128 = (((v as u128) << 1) | 1) << (len - 1);
        x.to_le_bytes()[..len].to_vec()
    }
}

fn interesting_u64(rng: &mut Rng) -> u64 {
    match rng.below(6) {
        0 => {
            let k = rng.below(65) as u32;
            let base = if k == 64 { u64::MAX } else { 1u64 << k };
            base.wrapping_add(rng.below(5)).wrapping_sub(2)
        },
        1 => {
            let k = (rng.below(10) * 7) as u32; // vint64 boundaries 2^(7k)
            let base = if k >= 64 { u64::MAX } else { 1u64 << k };
            base.wrapping_add(rng.below(3)).wrapping_sub(1)
        },
        2 => rng.below(300),
        3 => u64::MAX - rng.below(3),
        _ => rng.u64() >> rng.below(64),
    }
}

struct Ctx<'a> {
    rep: &'a mut Report,
    rng: Rng,
}

/// the oracle for one value of one type
fn check_value<T>(cx: &mut Ctx, ty: &str, x: &T, expect_bytes: Option<&[u8]>)
where
    T: Serializable + Deserializable + PartialEq + Debug,
{
    let bytes = match guard(|| x.to_bytes()) {
        Ok(b) => b,
        Err(p) => {
            cx.rep.violation(&format!("encode-{}|{}", ty, p.sig()), json!({"type": ty, "value": format!("{x:?}")}));
            return;
        },
    };
    let key = [ty.as_bytes(), &bytes[..bytes.len().min(64)]].concat();
    cx.rep.case(&key, !bytes.is_empty());
    if cx.rep.samples.len() < 4 && cx.rng.chance(1, 50) {
        let mut v = format!("{x:?}");
        v.truncate(80);
        cx.rep.sample(json!({"type": ty, "value": v, "encoding": hex(&bytes[..bytes.len().min(40)])}));
    }
    cx.rep.count(&format!("type:{ty}"));
    if let Some(e) = expect_bytes {
        if e != bytes.as_slice() {
            cx.rep.violation(&format!("encoding-differs-from-documented|{ty}"),
                json!({"type": ty, "value": format!("{x:?}"), "got": hex(&bytes), "documented": hex(e)}));
        }
    }
    // 1. decode from own encoding, exact consumption
    let tail = cx.rng.bytes(cx.rng.clone().usize(4));
    let mut with_tail = bytes.clone();
    with_tail.extend_from_slice(&tail);
    let r = guard(|| {
        let mut rd = SliceReader::new(&with_tail);
        let v = T::read_from(&mut rd);
        let mut rest = 0usize;
        while rd.has_more_bytes() {
            rd.read_u8().unwrap();
            rest += 1;
        }
        (v, rest)
    });
    match r {
        Err(p) => cx.rep.violation(&format!("decode-{}|{}", ty, p.sig()), json!({"type": ty, "bytes": hex(&with_tail)})),
        Ok((Err(e), _)) => cx.rep.violation(&format!("own-encoding-rejected|{ty}"),
            json!({"type": ty, "value": format!("{x:?}"), "bytes": hex(&bytes), "error": e.to_string()})),
        Ok((Ok(v), rest)) => {
            if &v != x {
                cx.rep.violation(&format!("roundtrip-value-differs|{ty}"),
                    json!({"type": ty, "value": format!("{x:?}"), "decoded": format!("{v:?}"), "bytes": hex(&bytes)}));
            }
            if rest != tail.len() {
                cx.rep.violation(&format!("consumed-wrong-byte-count|{ty}"),
                    json!({"type": ty, "value": format!("{x:?}"), "encoded_len": bytes.len(), "left_over": rest, "expected_left": tail.len()}));
            }
        },
    }
    // read_from_bytes convenience agrees
    match guard(|| T::read_from_bytes(&bytes)) {
        Ok(Ok(v)) if &v == x => {},
        Ok(other) => cx.rep.violation(&format!("read_from_bytes-differs|{ty}"),
            json!({"type": ty, "value": format!("{x:?}"), "got": format!("{other:?}")})),
        Err(p) => cx.rep.violation(&format!("decode-{}|{}", ty, p.sig()), json!({"type": ty, "bytes": hex(&bytes)})),
    }
    // 2. every strict prefix is an error (never a panic)
    let step = if bytes.len() > 96 { bytes.len() / 48 } else { 1 };
    let mut cut = 0;
    while cut < bytes.len() {
        cx.rep.evals(1);
        match guard(|| T::read_from_bytes(&bytes[..cut])) {
            Ok(Err(DeserializationError::UnexpectedEOF)) => cx.rep.count("truncation:eof-error"),
            Ok(Err(_)) => cx.rep.count("truncation:other-error"),
            Ok(Ok(v)) => cx.rep.violation(&format!("truncated-input-accepted|{ty}"),
                json!({"type": ty, "value": format!("{x:?}"), "prefix_len": cut, "decoded": format!("{v:?}")})),
            Err(p) => cx.rep.violation(&format!("truncated-{}|{}", ty, p.sig()),
                json!({"type": ty, "bytes": hex(&bytes[..cut])})),
        }
        cut += step;
    }
}

fn rand_string(rng: &mut Rng) -> String {
    let n = match rng.below(4) { 0 => 0, 1 => rng.usize(4), 2 => 126 + rng.usize(4), _ => rng.usize(300) };
    let mut s = String::new();
    let alphabet = ['a', 'Z', '0', ' ', '\0', 'é', 'ß', '€', '𝄞', '\u{7f}', '\u{80}', '\u{7ff}', '\u{800}', '\u{ffff}', '\u{10000}', '\u{10ffff}'];
    while s.chars().count() < n {
        s.push(*rng.pick(&alphabet));
    }
    s
}

pub fn roundtrip(args: &Args) {
    let mut rep = Report::new("C26", "c26_rt",
        "values of every primitive/collection type (boundary-biased); distinct = distinct (type, encoding); non-trivial = non-empty encoding");
    let n = args.budget(20_000, 1_000_000);
    let mut cx = Ctx { rep: &mut rep, rng: Rng::for_case(args.seed(), 26, 0) };

    // exhaustive vint64 boundaries: every 2^(7k) +- 2, every power of two +-1, and ends
    let mut sizes: Vec<u64> = vec![0, 1, u64::MAX, u64::MAX - 1];
    for k in 0..64u32 {
        for d in [-2i64, -1, 0, 1, 2] {
            sizes.push((1u64 << k).wrapping_add(d as u64));
        }
    }
    for v in &sizes {
        let doc = ref_vint64(*v);
        check_value(&mut cx, "usize", &(*v as usize), Some(&doc));
        // documented length rule: 1 + floor((bits-1)/7) capped at 9
        let bits = 64 - v.leading_zeros() as usize;
        let want = if bits <= 7 { 1 } else if bits > 56 { 9 } else { bits.div_ceil(7) };
        let hint = (*v as usize).get_size_hint();
        if hint != want {
            cx.rep.violation("usize-size-hint-differs-from-encoded-length", json!({"value": v, "hint": hint, "documented": want}));
        }
    }
    cx.rep.extra.insert("vint64_boundary_values".into(), json!(sizes.len()));

    for b in [false, true] {
        check_value(&mut cx, "bool", &B(b), Some(&[b as u8]));
    }
    for v in 0..=255u8 {
        check_value(&mut cx, "u8", &v, Some(&[v]));
    }
    check_value(&mut cx, "unit", &(), Some(&[]));

    for i in 0..n {
        let mut rng = Rng::for_case(args.seed(), 2600, i);
        let a = interesting_u64(&mut rng);
        let b = interesting_u64(&mut rng);
        match i % 16 {
            0 => check_value(&mut cx, "u16", &(a as u16), Some(&(a as u16).to_le_bytes())),
            1 => check_value(&mut cx, "u32", &(a as u32), Some(&(a as u32).to_le_bytes())),
            2 => check_value(&mut cx, "u64", &a, Some(&a.to_le_bytes())),
            3 => {
                let v = ((a as u128) << 64) | b as u128;
                check_value(&mut cx, "u128", &v, Some(&v.to_le_bytes()))
            },
            4 => {
                let doc = ref_vint64(a);
                check_value(&mut cx, "usize", &(a as usize), Some(&doc))
            },
            5 => {
                let v: Option<u64> = if rng.bool() { Some(a) } else { None };
                check_value(&mut cx, "Option<u64>", &v, None);
                let v: Option<Option<u8>> = match rng.below(3) { 0 => None, 1 => Some(None), _ => Some(Some(a as u8)) };
                check_value(&mut cx, "Option<Option<u8>>", &v, None);
            },
            6 => {
                let v: [u16; 5] = [a as u16, b as u16, 0, u16::MAX, rng.u64() as u16];
                check_value(&mut cx, "[u16;5]", &v, None);
                let v: [u8; 0] = [];
                check_value(&mut cx, "[u8;0]", &v, Some(&[]));
                // element types with empty encodings
                let k = rng.usize(5);
                let v: Vec<()> = vec![(); k];
                check_value(&mut cx, "Vec<()>", &v, Some(&ref_vint64(k as u64)));
                let v: [(); 3] = [(); 3];
                check_value(&mut cx, "[();3]", &v, Some(&[]));
                let v: Vec<[u8; 0]> = vec![[]; k];
                check_value(&mut cx, "Vec<[u8;0]>", &v, Some(&ref_vint64(k as u64)));
                let mut v: BTreeSet<()> = BTreeSet::new();
                if rng.bool() {
                    v.insert(());
                }
                check_value(&mut cx, "BTreeSet<()>", &v, None);
                let v: Vec<Vec<()>> = (0..k).map(|i| vec![(); i]).collect();
                check_value(&mut cx, "Vec<Vec<()>>", &v, None);
                let v: [usize; 3] = [a as usize, b as usize, 127];
                check_value(&mut cx, "[usize;3]", &v, None);
            },
            7 => {
                let len = match rng.below(5) { 0 => 0, 1 => 127, 2 => 128, 3 => rng.usize(20), _ => rng.usize(400) };
                let v: Vec<u8> = rng.bytes(len);
                let mut doc = ref_vint64(len as u64);
                doc.extend_from_slice(&v);
                check_value(&mut cx, "Vec<u8>", &v, Some(&doc));
            },
            8 => {
                let len = rng.usize(40);
                let v: Vec<u64> = (0..len).map(|_| interesting_u64(&mut rng)).collect();
                check_value(&mut cx, "Vec<u64>", &v, None);
            },
            9 => {
                let len = rng.usize(6);
                let v: Vec<Vec<u16>> = (0..len).map(|_| (0..rng.usize(5)).map(|_| rng.u64() as u16).collect()).collect();
                check_value(&mut cx, "Vec<Vec<u16>>", &v, None);
                let v: Vec<Option<u32>> = (0..len).map(|_| if rng.bool() { Some(rng.u32()) } else { None }).collect();
                check_value(&mut cx, "Vec<Option<u32>>", &v, None);
            },
            10 => {
                let mut m: BTreeMap<u32, String> = BTreeMap::new();
                for _ in 0..rng.usize(8) {
                    m.insert(rng.u32() >> rng.below(32), rand_string(&mut rng));
                }
                check_value(&mut cx, "BTreeMap<u32,String>", &m, None);
                let mut m: BTreeMap<usize, Vec<u8>> = BTreeMap::new();
                for _ in 0..rng.usize(5) {
                    m.insert(interesting_u64(&mut rng) as usize, rng.bytes(rng.clone().usize(9)));
                }
                check_value(&mut cx, "BTreeMap<usize,Vec<u8>>", &m, None);
            },
            11 => {
                let mut s: BTreeSet<u64> = BTreeSet::new();
                for _ in 0..rng.usize(12) {
                    s.insert(interesting_u64(&mut rng));
                }
                check_value(&mut cx, "BTreeSet<u64>", &s, None);
                let mut s: BTreeSet<String> = BTreeSet::new();
                for _ in 0..rng.usize(4) {
                    s.insert(rand_string(&mut rng));
                }
                check_value(&mut cx, "BTreeSet<String>", &s, None);
            },
            12 => {
                let s = rand_string(&mut rng);
                let mut doc = ref_vint64(s.len() as u64);
                doc.extend_from_slice(s.as_bytes());
                check_value(&mut cx, "String", &s, Some(&doc));
            },
            13 => {
                let t = (a as u8,);
                check_value(&mut cx, "(u8,)", &t, None);
                let t = (a as u8, b as u16);
                check_value(&mut cx, "(u8,u16)", &t, None);
                let t = (a, rand_string(&mut rng), b as usize);
                check_value(&mut cx, "(u64,String,usize)", &t, None);
            },
            14 => {
                let t = (a as u8, b, B(rng.bool()), rng.u32());
                check_value(&mut cx, "(u8,u64,bool,u32)", &t, None);
                let t = (a as usize, Some(b as u16), vec![rng.u8(); rng.clone().usize(3)], rng.u128(), ());
                check_value(&mut cx, "(usize,Option<u16>,Vec<u8>,u128,())", &t, None);
                let t = ((a as u8, b as u8), [rng.u8(); 2], B(rng.bool()), rand_string(&mut rng), a as u32, vec![(rng.u8(), B(rng.bool()))]);
                check_value(&mut cx, "((u8,u8),[u8;2],bool,String,u32,Vec<(u8,bool)>)", &t, None);
            },
            _ => {
                let v: Vec<(usize, Option<String>)> = (0..rng.usize(4))
                    .map(|_| (interesting_u64(&mut rng) as usize, if rng.bool() { Some(rand_string(&mut rng)) } else { None }))
                    .collect();
                check_value(&mut cx, "Vec<(usize,Option<String>)>", &v, None);
            },
        }
    }
    rep.finish(&args.out());
}

// ------------------------------------------------------------------------------------------------
// hostile input: corrupted encodings / random bytes decoded as every type; a panic is recorded
// by the guard, an abort kills the worker and is recorded by the driver.
// ------------------------------------------------------------------------------------------------

fn decode_as<T: Deserializable + Serializable + Debug + PartialEq>(rep: &mut Report, ty: &str, bytes: &[u8]) {
    rep.count(&format!("type:{ty}"));
    match guard(|| {
        let mut rd = SliceReader::new(bytes);
        let v = T::read_from(&mut rd);
        let mut rest = 0usize;
        while rd.has_more_bytes() {
            rd.read_u8().unwrap();
            rest += 1;
        }
        (v, rest)
    }) {
        Err(p) => rep.violation(&format!("hostile-decode-{}|{}", ty, p.sig()), json!({"type": ty, "bytes": hex(&bytes[..bytes.len().min(64)])})),
        Ok((Err(_), _)) => rep.count("rejected"),
        Ok((Ok(v), rest)) => {
            rep.count("accepted");
            // an accepted decoding must re-encode to a value that decodes to the same value
            // (canonical re-encoding need not equal the input, e.g. non-minimal vint64)
            let consumed = bytes.len() - rest;
            let re = v.to_bytes();
            match T::read_from_bytes(&re) {
                Ok(v2) if v2 == v => {},
                other => rep.violation(&format!("accepted-value-does-not-roundtrip|{ty}"),
                    json!({"type": ty, "input": hex(&bytes[..consumed.min(64)]), "value": format!("{v:?}"), "second": format!("{other:?}")})),
            }
        },
    }
}

fn hostile_bytes(rng: &mut Rng) -> (Vec<u8>, &'static str) {
    // length prefixes that matter
    let prefix = |rng: &mut Rng| -> Vec<u8> {
        match rng.below(8) {
            0 => ref_vint64(u64::MAX - rng.below(16)),
            1 => ref_vint64(1u64 << (30 + rng.below(34))),
            2 => ref_vint64((1u64 << (rng.below(60))) + rng.below(3)),
            3 => vec![0u8], // 9-byte form follows
            4 => ref_vint64(rng.below(300)),
            5 => vec![rng.u8()],
            6 => ref_vint64(usize::MAX as u64 / (1 + rng.below(32))),
            _ => ref_vint64(rng.u64()),
        }
    };
    match rng.below(5) {
        0 => {
            let n = rng.usize(40);
            (rng.bytes(n), "random")
        },
        1 => {
            let mut b = prefix(rng);
            let n = rng.usize(64);
            b.extend(rng.bytes(n));
            (b, "huge-or-odd-length-prefix")
        },
        2 => {
            // bool / option tag bytes
            let mut b = vec![*rng.pick(&[0u8, 1, 2, 3, 0x7f, 0x80, 0xff])];
            let n = rng.usize(20);
            b.extend(rng.bytes(n));
            (b, "tag-byte")
        },
        3 => {
            // string with invalid utf-8
            let bad: &[&[u8]] = &[&[0xff], &[0xc0, 0x80], &[0xe2, 0x82], &[0xed, 0xa0, 0x80], &[0xf4, 0x90, 0x80, 0x80], &[0x80]];
            let body = [b"ab".as_slice(), *rng.pick(bad), b"c".as_slice()].concat();
            let mut b = ref_vint64(body.len() as u64);
            b.extend(body);
            (b, "invalid-utf8")
        },
        _ => {
            // nested: outer count small, inner count huge
            let mut b = ref_vint64(1 + rng.below(3));
            b.extend(prefix(rng));
            let n = rng.usize(32);
            b.extend(rng.bytes(n));
            (b, "nested-length")
        },
    }
}

pub fn hostile(args: &Args) {
    let mut rep = Report::new("C26", "c26_hostile",
        "corrupted encodings decoded as every type; distinct = distinct byte strings; non-trivial = at least one byte");
    let mut w = Worker::new(args, args.budget(20_000, 400_000));
    for case in w.from..w.to {
        if !w.start(case, &mut rep) {
            continue;
        }
        let mut rng = Rng::for_case(args.seed(), 2601, case);
        let (bytes, class) = hostile_bytes(&mut rng);
        rep.case(&bytes, !bytes.is_empty());
        rep.count(&format!("class:{class}"));
        if case % 997 == 0 {
            rep.sample(json!({"case": case, "class": class, "bytes": hex(&bytes[..bytes.len().min(48)])}));
        }
        decode_as::<B>(&mut rep, "bool", &bytes);
        decode_as::<usize>(&mut rep, "usize", &bytes);
        decode_as::<u128>(&mut rep, "u128", &bytes);
        decode_as::<Option<u16>>(&mut rep, "Option<u16>", &bytes);
        decode_as::<[u32; 3]>(&mut rep, "[u32;3]", &bytes);
        decode_as::<Vec<u8>>(&mut rep, "Vec<u8>", &bytes);
        decode_as::<Vec<u64>>(&mut rep, "Vec<u64>", &bytes);
        decode_as::<Vec<Vec<u8>>>(&mut rep, "Vec<Vec<u8>>", &bytes);
        decode_as::<String>(&mut rep, "String", &bytes);
        decode_as::<BTreeMap<u8, u8>>(&mut rep, "BTreeMap<u8,u8>", &bytes);
        decode_as::<BTreeSet<u16>>(&mut rep, "BTreeSet<u16>", &bytes);
        decode_as::<(u8, Vec<u16>, String)>(&mut rep, "(u8,Vec<u16>,String)", &bytes);
        decode_as::<Vec<(usize, Option<String>)>>(&mut rep, "Vec<(usize,Option<String>)>", &bytes);
    }
    rep.finish(&args.out());
}
