//! C13: polynomial helpers against reference polynomial arithmetic.
use vcommon::refarith::{poly_degree, poly_divrem, poly_eval, poly_interpolate, poly_mul, Ext, ExtSpec};
use vcommon::{guard, json, Args, Report, Rng, Value};
use vwf::Fut;
use winter_math::fields::{f128, f62, f64 as f64m, CubeExtension, QuadExtension};
use winter_math::polynom;

fn trim(v: &[Ext]) -> Vec<Ext> {
    let mut v = v.to_vec();
    while let Some(l) = v.last() {
        if *l == [0, 0, 0] {
            v.pop();
        } else {
            break;
        }
    }
    v
}

fn gen_poly<E: Fut>(rng: &mut Rng, max_len: usize) -> (Vec<E>, Vec<Ext>) {
    let len = match rng.below(8) {
        0 => 0,
        1 => 1,
        2 => 2,
        _ => rng.usize(max_len + 1),
    };
    let mut es = Vec::with_capacity(len);
    let mut vs = Vec::with_capacity(len);
    let mode = rng.below(6);
    for i in 0..len {
        let zero = match mode {
            0 => true,                    // all-zero vector
            1 => i * 2 >= len,            // leading zeros (top half)
            2 => rng.chance(1, 2),        // sparse
            3 => i + 1 == len,            // exactly one leading zero
            _ => false,
        };
        if zero {
            es.push(E::ZERO);
            vs.push([0, 0, 0]);
        } else {
            let (e, v) = E::gen(rng);
            es.push(e);
            vs.push(v);
        }
    }
    (es, vs)
}

fn to_refs<E: Fut>(v: &[E]) -> Vec<Ext> {
    v.iter().map(|e| e.to_ref()).collect()
}

fn show(deg: usize, v: &[Ext]) -> String {
    let s: Vec<String> = v.iter().take(12).map(|c| format!("{:?}", &c[..deg])).collect();
    format!("[{}{}]", s.join(","), if v.len() > 12 { ",…" } else { "" })
}

struct Cx<'a> {
    rep: &'a mut Report,
    name: String,
    deg: usize,
    case: u64,
}

impl Cx<'_> {
    fn cmp(&mut self, op: &str, got: Result<Vec<Ext>, vcommon::PanicInfo>, want: &[Ext], exact_len: Option<usize>, inputs: Value) {
        self.rep.evals(1);
        self.rep.count(&format!("op:{op}"));
        match got {
            Err(p) => self.rep.violation(&format!("{}|{}|{}", p.sig(), self.name, op), json!({"case": self.case, "inputs": inputs})),
            Ok(g) => {
                if trim(&g) != trim(want) {
                    self.rep.violation(&format!("wrong-result|{}|{}", self.name, op),
                        json!({"case": self.case, "inputs": inputs, "got": show(self.deg, &g), "reference": show(self.deg, want)}));
                } else if let Some(l) = exact_len {
                    if g.len() != l {
                        self.rep.violation(&format!("wrong-length|{}|{}", self.name, op),
                            json!({"case": self.case, "inputs": inputs, "got_len": g.len(), "documented_len": l}));
                    }
                }
            },
        }
    }
}

fn distinct_points<E: Fut>(rng: &mut Rng, n: usize, allow_zero: bool) -> (Vec<E>, Vec<Ext>) {
    let mut es: Vec<E> = vec![];
    let mut vs: Vec<Ext> = vec![];
    while es.len() < n {
        let (e, v) = E::gen(rng);
        if vs.contains(&v) || (!allow_zero && v == [0, 0, 0]) {
            continue;
        }
        es.push(e);
        vs.push(v);
    }
    (es, vs)
}

fn run_case<E: Fut>(rep: &mut Report, seed: u64, case: u64, max_len: usize) {
    let mut rng = Rng::for_case(seed, 1300 + E::DEG as u64, case);
    let f: ExtSpec = E::spec();
    let d = E::DEG;
    let mut cx = Cx { rep, name: E::name(), deg: d, case };
    let (a, av) = gen_poly::<E>(&mut rng, max_len);
    let (b, bv) = gen_poly::<E>(&mut rng, max_len);
    cx.rep.distinct_key(format!("{}{:?}{:?}", cx.name, av, bv).as_bytes());
    let inputs = json!({"a": show(d, &av), "b": show(d, &bv)});
    if case % 5003 == 0 {
        cx.rep.sample(json!({"field": cx.name, "case": case, "a": show(d, &av), "b": show(d, &bv)}));
    }

    // eval / eval_many at boundary-biased points
    let (xs, xvs): (Vec<E>, Vec<Ext>) = (0..4).map(|_| E::gen(&mut rng)).unzip();
    let want: Vec<Ext> = xvs.iter().map(|x| poly_eval(&f, &av, *x)).collect();
    cx.cmp("eval_many", guard(|| to_refs(&polynom::eval_many(&a, &xs))), &want, Some(xs.len()), inputs.clone());
    cx.cmp("eval", guard(|| vec![polynom::eval(&a, xs[0]).to_ref()]), &want[..1], Some(1), inputs.clone());

    // add / sub / mul / mul_by_scalar
    let n = av.len().max(bv.len());
    let pad = |v: &Vec<Ext>| {
        let mut v = v.clone();
        v.resize(n, [0, 0, 0]);
        v
    };
    let (pa, pb) = (pad(&av), pad(&bv));
    let sum: Vec<Ext> = (0..n).map(|i| f.add(pa[i], pb[i])).collect();
    let dif: Vec<Ext> = (0..n).map(|i| f.sub(pa[i], pb[i])).collect();
    cx.cmp("add", guard(|| to_refs(&polynom::add(&a, &b))), &sum, Some(n), inputs.clone());
    cx.cmp("sub", guard(|| to_refs(&polynom::sub(&a, &b))), &dif, Some(n), inputs.clone());
    if !a.is_empty() && !b.is_empty() {
        let prod = poly_mul(&f, &av, &bv);
        cx.cmp("mul", guard(|| to_refs(&polynom::mul(&a, &b))), &prod, Some(av.len() + bv.len() - 1), inputs.clone());
    }
    let (k, kv) = E::gen(&mut rng);
    let scaled: Vec<Ext> = av.iter().map(|c| f.mul(*c, kv)).collect();
    cx.cmp("mul_by_scalar", guard(|| to_refs(&polynom::mul_by_scalar(&a, k))), &scaled, Some(av.len()), inputs.clone());

    // degree_of / remove_leading_zeros
    cx.rep.evals(2);
    let dg = polynom::degree_of(&a);
    if dg != poly_degree(&av) {
        cx.rep.violation(&format!("wrong-result|{}|degree_of", cx.name), json!({"inputs": inputs, "got": dg, "reference": poly_degree(&av)}));
    }
    let tr = to_refs(&polynom::remove_leading_zeros(&a));
    if tr != trim(&av) {
        cx.rep.violation(&format!("wrong-result|{}|remove_leading_zeros", cx.name), json!({"inputs": inputs, "got_len": tr.len(), "reference_len": trim(&av).len()}));
    }

    // div: documented preconditions: b non-empty, b != 0, deg b <= deg a
    let tb = trim(&bv);
    if !tb.is_empty() && poly_degree(&av) >= poly_degree(&bv) && !av.is_empty() {
        let (q, _) = poly_divrem(&f, &av, &bv);
        cx.cmp("div", guard(|| to_refs(&polynom::div(&a, &b))), &q, None, inputs.clone());
        // exact division: (a*b)/b == a
        if !trim(&av).is_empty() {
            let prod_e = polynom::mul(&a, &b);
            cx.cmp("div-exact", guard(|| to_refs(&polynom::div(&prod_e, &b))), &av, None, inputs.clone());
        }
    }

    // syn_div by x^k - c  (k >= 1, c != 0, len > k)
    if av.len() >= 2 {
        let kdeg = match rng.below(4) { 0 => 1, 1 => av.len() - 1, _ => 1 + rng.usize(av.len() - 1) };
        let (c, cv) = loop {
            let (c, cv) = if rng.chance(1, 4) { (E::ONE, [1, 0, 0]) } else { E::gen(&mut rng) };
            if cv != [0, 0, 0] {
                break (c, cv);
            }
        };
        let mut divisor = vec![[0u128; 3]; kdeg + 1];
        divisor[0] = f.neg(cv);
        divisor[kdeg] = [1, 0, 0];
        let (q, _) = poly_divrem(&f, &av, &divisor);
        let inp = json!({"p": show(d, &av), "a": kdeg, "b": format!("{:?}", &cv[..d])});
        cx.cmp("syn_div", guard(|| to_refs(&polynom::syn_div(&a, kdeg, c))), &q, Some(av.len()), inp.clone());
        cx.cmp("syn_div_in_place", guard(|| {
            let mut p = a.clone();
            polynom::syn_div_in_place(&mut p, kdeg, c);
            to_refs(&p)
        }), &q, Some(av.len()), inp);
        // division by a product of linear factors (duplicates allowed)
        let m = 1 + rng.usize((av.len() - 1).min(6));
        let mut roots: Vec<E> = vec![];
        let mut rvs: Vec<Ext> = vec![];
        for i in 0..m {
            if i > 0 && rng.chance(1, 4) {
                roots.push(roots[0]);
                rvs.push(rvs[0]);
            } else {
                let (r, rv) = E::gen(&mut rng);
                roots.push(r);
                rvs.push(rv);
            }
        }
        let mut dv = vec![f.one()];
        for r in &rvs {
            dv = poly_mul(&f, &dv, &[f.neg(*r), f.one()]);
        }
        let (q, _) = poly_divrem(&f, &av, &dv);
        cx.cmp("syn_div_roots_in_place", guard(|| {
            let mut p = a.clone();
            polynom::syn_div_roots_in_place(&mut p, &roots);
            to_refs(&p)
        }), &q, Some(av.len()), json!({"p": show(d, &av), "roots": show(d, &rvs)}));
        // poly_from_roots
        cx.cmp("poly_from_roots", guard(|| to_refs(&polynom::poly_from_roots(&roots))), &dv, Some(m + 1), json!({"roots": show(d, &rvs)}));
    }

    // interpolation through distinct points (x = 0 allowed: nothing documents otherwise)
    let npts = 1 + rng.usize(max_len.min(24));
    let (px, pxv) = distinct_points::<E>(&mut rng, npts, true);
    let (py, pyv): (Vec<E>, Vec<Ext>) = (0..npts)
        .map(|i| if rng.chance(1, 5) { (E::ZERO, [0, 0, 0]) } else if i > 0 && rng.chance(1, 8) { E::gen(&mut rng) } else { E::gen(&mut rng) })
        .unzip();
    let want = poly_interpolate(&f, &pxv, &pyv);
    let inp = json!({"xs": show(d, &pxv), "ys": show(d, &pyv)});
    cx.cmp("interpolate", guard(|| to_refs(&polynom::interpolate(&px, &py, false))), &want, Some(npts), inp.clone());
    let tw = trim(&want);
    cx.cmp("interpolate-trimmed", guard(|| to_refs(&polynom::interpolate(&px, &py, true))), &tw, Some(tw.len()), inp);

    // batched interpolation, N = 4 and 8
    fn batch<E: Fut, const N: usize>(cx: &mut Cx, rng: &mut Rng, f: &ExtSpec) {
        let nb = 1 + rng.usize(3);
        let mut xb: Vec<[E; N]> = vec![];
        let mut yb: Vec<[E; N]> = vec![];
        let mut want: Vec<Ext> = vec![];
        let mut desc = vec![];
        for _ in 0..nb {
            let (px, pxv) = distinct_points::<E>(rng, N, true);
            let (py, pyv): (Vec<E>, Vec<Ext>) = (0..N).map(|_| E::gen(rng)).unzip();
            want.extend(poly_interpolate(f, &pxv, &pyv));
            desc.push(json!({"xs": show(E::DEG, &pxv), "ys": show(E::DEG, &pyv)}));
            xb.push(px.try_into().unwrap());
            yb.push(py.try_into().unwrap());
        }
        let got = guard(|| polynom::interpolate_batch(&xb, &yb).iter().flat_map(|p| p.iter().map(|c| c.to_ref()).collect::<Vec<_>>()).collect::<Vec<Ext>>());
        // compare batch by batch without trimming across batches: use exact comparison
        cx.rep.evals(1);
        cx.rep.count(&format!("op:interpolate_batch<{N}>"));
        match got {
            Err(p) => cx.rep.violation(&format!("{}|{}|interpolate_batch", p.sig(), cx.name), json!({"batches": desc})),
            Ok(g) => {
                if g != want {
                    cx.rep.violation(&format!("wrong-result|{}|interpolate_batch", cx.name), json!({"batches": desc, "got": show(E::DEG, &g), "reference": show(E::DEG, &want)}));
                }
            },
        }
    }
    if case % 3 == 0 {
        batch::<E, 4>(&mut cx, &mut rng, &f);
        batch::<E, 8>(&mut cx, &mut rng, &f);
        batch::<E, 2>(&mut cx, &mut rng, &f);
    }
}

pub fn run(args: &Args) {
    let mut rep = Report::new("C13", "c13",
        "random polynomial pairs (length 0..40, all-zero / leading-zero / sparse modes, representation-biased coefficients) over f64, f64^2, f62^3, f128, f62, f64^3, f128^2; every helper compared with reference polynomial arithmetic; distinct = distinct input pairs");
    let n = args.budget(6_000, 300_000);
    let seed = args.seed();
    for case in 0..n {
        match case % 7 {
            0 => run_case::<f64m::BaseElement>(&mut rep, seed, case, 40),
            1 => run_case::<QuadExtension<f64m::BaseElement>>(&mut rep, seed, case, 24),
            2 => run_case::<CubeExtension<f62::BaseElement>>(&mut rep, seed, case, 16),
            3 => run_case::<f128::BaseElement>(&mut rep, seed, case, 24),
            4 => run_case::<f62::BaseElement>(&mut rep, seed, case, 40),
            5 => run_case::<CubeExtension<f64m::BaseElement>>(&mut rep, seed, case, 16),
            _ => run_case::<QuadExtension<f128::BaseElement>>(&mut rep, seed, case, 12),
        }
    }
    rep.finish(&args.out());
}
