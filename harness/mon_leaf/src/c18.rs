//! C18: Merkle trees and their openings are mutually consistent.
//! Oracle: recursive pairwise hash of the leaves (built here, level by level, with `H::merge`
//! only); every node of the tree is observed through `root()` and the paths of `prove(i)`.
//! Batch routes: prove_batch / from_single_proofs / get_root / verify_batch / into_openings and the
//! `VectorCommitment` facade. Run in the serial and the concurrent build; root digests are emitted
//! for the cross-run comparison.
use vcommon::{guard, hex, json, Args, Report, Rng};
use winter_crypto::hashers::{Blake3_192, Blake3_256, Rp62_248, Rp64_256, RpJive64_256, Sha3_256};
use winter_crypto::{BatchMerkleProof, Digest, Hasher, MerkleTree, VectorCommitment};
use winter_math::fields::{f128, f62, f64 as f64m};
use winter_utils::{Deserializable, Serializable, SliceReader};

type Digests = std::collections::BTreeMap<String, String>;

fn threads() -> usize {
    if cfg!(feature = "concurrent") {
        std::env::var("RAYON_NUM_THREADS").ok().and_then(|s| s.parse().ok()).unwrap_or(16)
    } else {
        1
    }
}

/// reference: all levels, levels[0] = leaves, last = [root]
fn ref_levels<H: Hasher>(leaves: &[H::Digest]) -> Vec<Vec<H::Digest>> {
    let mut levels = vec![leaves.to_vec()];
    while levels.last().unwrap().len() > 1 {
        let prev = levels.last().unwrap();
        let next: Vec<H::Digest> = prev.chunks(2).map(|c| H::merge(&[c[0], c[1]])).collect();
        levels.push(next);
    }
    levels
}

fn ref_path<H: Hasher>(levels: &[Vec<H::Digest>], mut i: usize) -> Vec<H::Digest> {
    let mut p = vec![];
    for l in &levels[..levels.len() - 1] {
        p.push(l[i ^ 1]);
        i >>= 1;
    }
    p
}

fn dhex<D: Digest>(d: &D) -> String {
    hex(&d.as_bytes()[..8])
}

fn gen_leaves<H: Hasher>(rng: &mut Rng, n: usize) -> Vec<H::Digest> {
    let salt = rng.bytes(16);
    (0..n)
        .map(|i| {
            let mut b = salt.clone();
            b.extend_from_slice(&(i as u64).to_le_bytes());
            H::hash(&b)
        })
        .collect()
}

/// index sets for a tree of n leaves
fn index_sets(rng: &mut Rng, n: usize, exhaustive_upto: usize, nrandom: usize) -> Vec<Vec<usize>> {
    let mut sets: Vec<Vec<usize>> = vec![];
    if n <= exhaustive_upto {
        for mask in 1u64..(1u64 << n) {
            let s: Vec<usize> = (0..n).filter(|i| mask >> i & 1 == 1).collect();
            sets.push(s);
        }
    } else {
        sets.push((0..n).collect());
        sets.push(vec![0]);
        sets.push(vec![n - 1]);
        sets.push(vec![0, n - 1]);
        sets.push((0..n).step_by(2).collect());
        sets.push((1..n).step_by(2).collect());
        sets.push((0..n).filter(|i| i % 4 == 1 || i % 4 == 2).collect());
        // one per subtree of size 8
        if n >= 16 {
            sets.push((0..n / 8).map(|k| k * 8 + rng.usize(8)).collect());
        }
        for _ in 0..nrandom {
            let k = match rng.usize(4) {
                0 => 1 + rng.usize(3),
                1 => 1 + rng.usize(n.min(40)),
                2 => 1 + rng.usize(n.min(255)),
                _ => n - rng.usize(n.min(4)),
            };
            let mut all: Vec<usize> = (0..n).collect();
            rng.shuffle(&mut all);
            all.truncate(k.max(1));
            all.sort_unstable();
            // sibling-heavy variant
            if rng.chance(1, 4) {
                let extra: Vec<usize> = all.iter().map(|i| i ^ 1).collect();
                all.extend(extra);
                all.sort_unstable();
                all.dedup();
            }
            sets.push(all);
        }
    }
    sets
}

struct Cx<'a> {
    rep: &'a mut Report,
    digests: &'a mut Digests,
}

fn check_tree<H: Hasher>(cx: &mut Cx, name: &str, rng: &mut Rng, n: usize, exhaustive_upto: usize, nrandom: usize, case: &str)
where
    H::Digest: PartialEq,
{
    let leaves = gen_leaves::<H>(rng, n);
    let levels = ref_levels::<H>(&leaves);
    let root_ref = levels.last().unwrap()[0];
    let ctx = json!({"hasher": name, "leaves": n, "threads": threads(), "case": case});
    cx.rep.distinct_key(format!("{name}/{n}").as_bytes());
    cx.rep.count(&format!("tree_leaves_log2:{}", n.trailing_zeros()));
    if cfg!(feature = "concurrent") && n > 1024 {
        cx.rep.count("trees_on_parallel_build_path");
    }
    let tree = match guard(|| MerkleTree::<H>::new(leaves.clone())) {
        Ok(Ok(t)) => t,
        Ok(Err(e)) => {
            cx.rep.violation(&format!("tree-construction-refused|{name}"), json!({"ctx": ctx, "error": format!("{e:?}")}));
            return;
        },
        Err(p) => {
            cx.rep.violation(&format!("{}|{name}|MerkleTree::new", p.sig()), ctx);
            return;
        },
    };
    cx.rep.evals(1);
    cx.digests.insert(format!("{name}/root/{case}/{n}"), hex(&tree.root().as_bytes()));
    if *tree.root() != root_ref {
        cx.rep.violation(&format!("root-differs-from-recursive-hash|{name}"), json!({"ctx": ctx, "got": dhex(tree.root()), "reference": dhex(&root_ref)}));
    }
    if tree.depth() != n.trailing_zeros() as usize || tree.leaves() != &leaves[..] || tree.domain_len() != n || tree.commitment() != *tree.root() {
        cx.rep.violation(&format!("accessor-mismatch|{name}"), ctx.clone());
    }
    // the public serial node builder, and (through paths) every node of the tree
    let nodes = winter_crypto::build_merkle_nodes::<H>(&leaves);
    for lvl in 1..levels.len() {
        let width = levels[lvl].len();
        if nodes[width..2 * width] != levels[lvl][..] {
            cx.rep.violation(&format!("serial-nodes-differ-from-recursive-hash|{name}"), json!({"ctx": ctx, "level": lvl}));
            break;
        }
    }
    // single openings: all for small trees, a sample plus edges above
    let singles: Vec<usize> = if n <= 4096 {
        (0..n).collect()
    } else {
        let mut v: Vec<usize> = (0..2048).map(|_| rng.usize(n)).collect();
        v.extend([0, 1, n / 2 - 1, n / 2, n - 2, n - 1]);
        // one index in every subtree of the concurrent build (16 subtrees x both halves)
        v.extend((0..64).map(|k| k * (n / 64) + rng.usize(n / 64)));
        v
    };
    for &i in &singles {
        cx.rep.evals(1);
        match guard(|| tree.prove(i)) {
            Ok(Ok((leaf, path))) => {
                if leaf != leaves[i] || path != ref_path::<H>(&levels, i) {
                    cx.rep.violation(&format!("opening-differs-from-recursive-hash|{name}"), json!({"ctx": ctx, "index": i}));
                    break;
                }
                match guard(|| MerkleTree::<H>::verify(root_ref, i, leaf, &path)) {
                    Ok(Ok(())) => {},
                    Ok(Err(e)) => {
                        cx.rep.violation(&format!("honest-opening-rejected|{name}"), json!({"ctx": ctx, "index": i, "error": format!("{e:?}")}));
                        break;
                    },
                    Err(p) => {
                        cx.rep.violation(&format!("{}|{name}|verify", p.sig()), json!({"ctx": ctx, "index": i}));
                        break;
                    },
                }
                if <MerkleTree<H> as VectorCommitment<H>>::get_proof_domain_len(&path) != n {
                    cx.rep.violation(&format!("proof-domain-len|{name}"), json!({"ctx": ctx, "index": i}));
                }
            },
            Ok(Err(e)) => {
                cx.rep.violation(&format!("prove-refused|{name}"), json!({"ctx": ctx, "index": i, "error": format!("{e:?}")}));
                break;
            },
            Err(p) => {
                cx.rep.violation(&format!("{}|{name}|prove", p.sig()), json!({"ctx": ctx, "index": i}));
                break;
            },
        }
    }
    // batch openings
    let sets = index_sets(rng, n, exhaustive_upto, nrandom);
    for set in sets {
        // orders: sorted, reversed, shuffled, "sibling pairs out of order"
        let mut orders: Vec<Vec<usize>> = vec![set.clone()];
        if set.len() > 1 {
            let mut r = set.clone();
            r.reverse();
            orders.push(r);
            let mut s = set.clone();
            rng.shuffle(&mut s);
            orders.push(s);
            // interleave far-apart indexes: evens of the list then odds
            let mut t: Vec<usize> = set.iter().cloned().step_by(2).collect();
            t.extend(set.iter().cloned().skip(1).step_by(2));
            orders.push(t);
        }
        for idx in orders {
            cx.rep.evals(1);
            cx.rep.count("batch_openings");
            if idx.windows(2).any(|w| w[0] > w[1]) {
                cx.rep.count("batch_openings_unsorted");
            }
            let bctx = json!({"ctx": ctx, "indexes": if idx.len() <= 24 { json!(idx) } else { json!(format!("{} indexes starting {:?}", idx.len(), &idx[..8])) }});
            let r = guard(|| batch_case::<H>(&tree, &leaves, &levels, root_ref, &idx));
            match r {
                Ok(Ok(())) => {},
                Ok(Err(what)) => cx.rep.violation(&format!("{what}|{name}"), bctx),
                Err(p) => cx.rep.violation(&format!("{}|{name}|batch", p.sig()), bctx),
            }
        }
    }
    if cx.rep.samples.len() < cx.rep.max_samples && n >= 8 {
        cx.rep.sample(json!({"hasher": name, "leaves": n, "root": hex(&tree.root().as_bytes()), "threads": threads()}));
    }
}

fn batch_case<H: Hasher>(
    tree: &MerkleTree<H>,
    leaves: &[H::Digest],
    levels: &[Vec<H::Digest>],
    root: H::Digest,
    idx: &[usize],
) -> Result<(), String> {
    let (got_leaves, proof) = tree.prove_batch(idx).map_err(|e| format!("prove_batch-refused:{e:?}"))?;
    let want_leaves: Vec<H::Digest> = idx.iter().map(|&i| leaves[i]).collect();
    if got_leaves != want_leaves {
        return Err("prove_batch-leaves-not-in-caller-order".into());
    }
    if proof.depth as usize != tree.depth() {
        return Err("batch-proof-depth".into());
    }
    match proof.get_root(idx, &got_leaves) {
        Ok(r) if r == root => {},
        Ok(_) => return Err("batch-get_root-differs-from-root".into()),
        Err(e) => return Err(format!("batch-get_root-error:{e:?}")),
    }
    MerkleTree::<H>::verify_batch(&root, idx, &got_leaves, &proof).map_err(|e| format!("honest-batch-rejected:{e:?}"))?;
    <MerkleTree<H> as VectorCommitment<H>>::verify_many(root, idx, &got_leaves, &proof)
        .map_err(|e| format!("honest-batch-rejected-by-verify_many:{e:?}"))?;
    let (vl, vp) = tree.open_many(idx).map_err(|e| format!("open_many-refused:{e:?}"))?;
    if vl != got_leaves || vp.nodes != proof.nodes || vp.depth != proof.depth {
        return Err("open_many-differs-from-prove_batch".into());
    }
    if <MerkleTree<H> as VectorCommitment<H>>::get_multiproof_domain_len(&proof) != leaves.len() {
        return Err("multiproof-domain-len".into());
    }
    // minimality: the batch proof holds exactly the nodes of the union of paths not computable
    // from the opened leaves: count by definition
    let want_nodes = count_needed_nodes(levels.len() - 1, idx);
    let have: usize = proof.nodes.iter().map(|v| v.len()).sum();
    if have != want_nodes {
        return Err("batch-proof-node-count-differs-from-definition".into());
    }
    // route 2: from single proofs
    let singles: Vec<(H::Digest, Vec<H::Digest>)> =
        idx.iter().map(|&i| tree.prove(i).map_err(|e| format!("prove-refused:{e:?}"))).collect::<Result<_, _>>()?;
    let proof2 = BatchMerkleProof::<H>::from_single_proofs(&singles, idx);
    if proof2.nodes != proof.nodes || proof2.depth != proof.depth {
        return Err("from_single_proofs-differs-from-prove_batch".into());
    }
    // route 3: expansion
    let proof3 = BatchMerkleProof::<H> { nodes: proof.nodes.clone(), depth: proof.depth };
    let openings = proof3.into_openings(&got_leaves, idx).map_err(|e| format!("into_openings-error:{e:?}"))?;
    if openings != singles {
        return Err("into_openings-differs-from-single-openings".into());
    }
    // serialization round trip
    let bytes = proof.to_bytes();
    let mut rd = SliceReader::new(&bytes);
    let back = BatchMerkleProof::<H>::read_from(&mut rd).map_err(|e| format!("batch-proof-decode-error:{e:?}"))?;
    if back.nodes != proof.nodes || back.depth != proof.depth || winter_utils::ByteReader::has_more_bytes(&rd) {
        return Err("batch-proof-serialization-round-trip".into());
    }
    Ok(())
}

/// number of sibling nodes a batch proof must carry: at every level, siblings of known nodes that
/// are not themselves known
fn count_needed_nodes(depth: usize, idx: &[usize]) -> usize {
    let mut known: std::collections::BTreeSet<usize> = idx.iter().cloned().collect();
    let mut total = 0;
    for _ in 0..depth {
        for &k in &known {
            if !known.contains(&(k ^ 1)) {
                total += 1;
            }
        }
        known = known.iter().map(|k| k >> 1).collect();
    }
    total
}

fn per_hasher<H: Hasher>(cx: &mut Cx, name: &str, seed: u64, thorough: bool, heavy: bool, maxk: u32)
where
    H::Digest: PartialEq,
{
    let exh = if thorough { if heavy { 8 } else { 12 } } else if heavy { 4 } else { 8 };
    for k in 1..=maxk {
        let n = 1usize << k;
        if heavy && k > if thorough { 12 } else { 11 } {
            // algebraic hashers: ~20-50 us per merge; one size above the parallel threshold
            continue;
        }
        let reps = if k <= 4 { if thorough { 6 } else { 2 } } else { 1 };
        for r in 0..reps {
            let mut rng = Rng::for_case(seed, 1800 + k as u64, vcommon::fnv(name.as_bytes()) ^ r);
            let nrandom = if thorough { 60 } else if n > 4096 { 6 } else { 16 };
            let nrandom = if heavy { nrandom / 3 + 1 } else { nrandom };
            check_tree::<H>(cx, name, &mut rng, n, exh, nrandom, &format!("r{r}"));
        }
    }
}

pub fn run(args: &Args) {
    let mut rep = Report::new("C18", "c18",
        "trees of 2..2^K leaves x 6 hashers: root and every opened path vs recursive pairwise hash; every single opening verifies; batch openings for every non-empty subset (exhaustive up to 8 leaves, thorough 12) and structured/random subsets above, each in sorted, reversed, shuffled and interleaved order: prove_batch, get_root, verify_batch, verify_many/open_many, node count vs definition, from_single_proofs == prove_batch, into_openings == single openings in caller order, serialization round trip; root digests emitted for cross-build/thread comparison; distinct = (hasher, leaves)");
    let seed = args.seed();
    // --lite 1 (the Miri stage): quick-tier subset rules and no Rescue hashers (a Rescue merge
    // costs seconds under the interpreter; the Merkle code is generic in the hasher)
    let lite = args.u64("lite", 0) == 1;
    let thorough = args.thorough() && !lite;
    let maxk = args.u64("maxk", if thorough { 15 } else { 13 }) as u32;
    let mut digests = Digests::new();
    {
        let mut cx = Cx { rep: &mut rep, digests: &mut digests };
        per_hasher::<Blake3_256<f64m::BaseElement>>(&mut cx, "Blake3_256", seed, thorough, false, maxk);
        per_hasher::<Blake3_192<f128::BaseElement>>(&mut cx, "Blake3_192", seed, thorough, false, maxk);
        per_hasher::<Sha3_256<f62::BaseElement>>(&mut cx, "Sha3_256", seed, thorough, false, maxk);
        if !lite {
            per_hasher::<Rp64_256>(&mut cx, "Rp64_256", seed, thorough, true, maxk);
            per_hasher::<RpJive64_256>(&mut cx, "RpJive64_256", seed, thorough, true, maxk);
            per_hasher::<Rp62_248>(&mut cx, "Rp62_248", seed, thorough, true, maxk);
        }
    }
    rep.extra.insert("threads".into(), json!(threads()));
    rep.extra.insert("digests".into(), json!(digests));
    rep.finish(&args.out());
}

/// one tree just above the concurrency threshold, few batch sets: sized for Miri / TSan
pub fn run_small(args: &Args) {
    let mut rep = Report::new("C18", "c18_par_small", "one 2048-leaf Blake3 tree (parallel build path in the concurrent build) with all C18 oracles on a few index sets");
    let mut digests = Digests::new();
    {
        let mut cx = Cx { rep: &mut rep, digests: &mut digests };
        let mut rng = Rng::for_case(args.seed(), 1811, 0);
        check_tree::<Blake3_256<f64m::BaseElement>>(&mut cx, "Blake3_256", &mut rng, 2048, 0, 1, "small");
    }
    rep.extra.insert("threads".into(), json!(threads()));
    rep.finish(&args.out());
}
