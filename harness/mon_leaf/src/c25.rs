//! C25: security estimates are bounded and monotone, and the verifier's acceptable-options check
//! matches them. Grid walk: at every grid point the conjectured and proven estimates are computed
//! and compared with the same point moved one step along the queries / grinding / extension
//! axes; dummy proofs carrying the options are pushed through `AcceptableOptions::validate`.
use vcommon::{guard, json, Args, Report, Rng};
use winter_air::proof::{Context, Proof};
use winter_air::{BatchingMethod, FieldExtension, ProofOptions, TraceInfo};
use winter_crypto::hashers::{Blake3_192, Blake3_256, Rp62_248, Rp64_256, RpJive64_256, Sha3_256};
use winter_crypto::Hasher;
use winter_math::fields::{f128, f62, f64 as f64m};
use winter_math::StarkField;
use winter_verifier::AcceptableOptions;

#[derive(Clone, Debug)]
struct Pt {
    queries: usize,
    blowup: usize,
    grinding: u32,
    ext: u8,
    folding: usize,
    rem: usize,
    bc: u8,
    bd: u8,
    log_n: u32,
    constraints: usize,
    width: usize,
    field: u8, // 0 f62, 1 f64, 2 f128
    hash: u8,  // 0 Blake3_192 (96), 1 Rp62_248 (124), 2 Blake3_256 (128)
}

const BM: [BatchingMethod; 3] = [BatchingMethod::Linear, BatchingMethod::Algebraic, BatchingMethod::Horner];
const EXT: [FieldExtension; 3] = [FieldExtension::None, FieldExtension::Quadratic, FieldExtension::Cubic];

impl Pt {
    fn options(&self) -> ProofOptions {
        ProofOptions::new(self.queries, self.blowup, self.grinding, EXT[self.ext as usize], self.folding, self.rem, BM[self.bc as usize], BM[self.bd as usize])
    }
    fn field_bits(&self) -> u32 {
        [62, 64, 128][self.field as usize]
    }
    fn cr(&self) -> u32 {
        [96, 124, 128][self.hash as usize]
    }
    /// dummy proof carrying this point's context
    fn proof(&self) -> Proof {
        let mut proof = Proof::new_dummy();
        let ti = TraceInfo::new(self.width, 1usize << self.log_n);
        proof.context = match self.field {
            0 => Context::new::<f62::BaseElement>(ti, self.options(), self.constraints),
            1 => Context::new::<f64m::BaseElement>(ti, self.options(), self.constraints),
            _ => Context::new::<f128::BaseElement>(ti, self.options(), self.constraints),
        };
        proof
    }
    /// (conjectured bits, proven unique-decoding bits, proven list-decoding bits) through the
    /// public Proof accessors
    fn bits(&self) -> (u32, u32, u32) {
        let p = self.proof();
        fn get<H: Hasher>(p: &Proof) -> (u32, u32, u32) {
            let c = p.conjectured_security::<H>();
            let s = p.proven_security::<H>();
            (c.bits(), s.udr_bits(), s.ldr_bits())
        }
        match self.hash {
            0 => get::<Blake3_192<f64m::BaseElement>>(&p),
            1 => get::<Rp62_248>(&p),
            _ => get::<Blake3_256<f64m::BaseElement>>(&p),
        }
    }
    fn at_least(&self, conj: bool, b: u32) -> bool {
        let p = self.proof();
        fn get<H: Hasher>(p: &Proof, conj: bool, b: u32) -> bool {
            if conj { p.conjectured_security::<H>().is_at_least(b) } else { p.proven_security::<H>().is_at_least(b) }
        }
        match self.hash {
            0 => get::<Blake3_192<f64m::BaseElement>>(&p, conj, b),
            1 => get::<Rp62_248>(&p, conj, b),
            _ => get::<Blake3_256<f64m::BaseElement>>(&p, conj, b),
        }
    }
}

fn gen_pt(rng: &mut Rng) -> Pt {
    let log_blowup = 1 + rng.usize(7) as u32;
    // Context::new requires trace length * blowup < 2^32
    let max_log_n = 31 - log_blowup;
    Pt {
        queries: match rng.usize(5) { 0 => 1 + rng.usize(3), 1 => 253 + rng.usize(2), 2 => 20 + rng.usize(80), _ => 1 + rng.usize(254) },
        blowup: 1 << log_blowup,
        grinding: match rng.usize(4) { 0 => 0, 1 => 31 + rng.usize(2) as u32, _ => rng.usize(32) as u32 },
        ext: rng.usize(3) as u8,
        folding: 1 << (1 + rng.usize(4)),
        rem: (1 << rng.usize(9)) - 1,
        bc: rng.usize(3) as u8,
        bd: rng.usize(3) as u8,
        log_n: match rng.usize(6) { 0 => 3, 1 => 4 + rng.usize(3) as u32, 2 => max_log_n - rng.usize(3) as u32, _ => 3 + rng.usize(max_log_n as usize - 2) as u32 }.min(max_log_n),
        constraints: *rng.pick(&[1usize, 2, 3, 16, 100, 1000, 65535, 65536, 1 << 20, u32::MAX as usize]),
        width: *rng.pick(&[1usize, 2, 10, 100, 254, 255]),
        field: rng.usize(3) as u8,
        hash: rng.usize(3) as u8,
    }
}

fn judge_point(rep: &mut Report, pt: &Pt) {
    rep.evals(1);
    let d = || json!({"point": format!("{pt:?}")});
    let r = guard(|| pt.bits());
    let (c, u, l) = match r {
        Ok(x) => x,
        Err(p) => {
            rep.violation(&format!("{}|security-compute", p.sig()), d());
            return;
        },
    };
    let ext_bits = pt.field_bits() * (pt.ext as u32 + 1);
    if c > pt.cr() {
        rep.violation("conjectured-exceeds-collision-resistance", d());
    }
    if u > pt.cr() || l > pt.cr() {
        rep.violation("proven-exceeds-collision-resistance", d());
    }
    if c >= ext_bits {
        rep.violation("conjectured-not-below-extension-field-size", d());
    }
    // is_at_least consistent with bits
    for b in [0u32, c.saturating_sub(1), c, c + 1, u32::MAX] {
        if pt.at_least(true, b) != (c >= b) {
            rep.violation("conjectured-is_at_least-inconsistent-with-bits", json!({"point": format!("{pt:?}"), "bits": c, "asked": b}));
        }
    }
    let best = u.max(l);
    for b in [0u32, best.saturating_sub(1), best, best + 1, u.min(l), u.min(l) + 1, u32::MAX] {
        if pt.at_least(false, b) != (best >= b) {
            rep.violation("proven-is_at_least-inconsistent-with-bits", json!({"point": format!("{pt:?}"), "udr": u, "ldr": l, "asked": b}));
        }
    }
    // neighbours along the three monotone axes
    let mut nb: Vec<(&str, Pt)> = vec![];
    if pt.queries < 255 {
        nb.push(("queries", Pt { queries: pt.queries + 1, ..pt.clone() }));
    }
    if pt.grinding < 32 {
        nb.push(("grinding", Pt { grinding: pt.grinding + 1, ..pt.clone() }));
    }
    if pt.ext < 2 {
        nb.push(("extension", Pt { ext: pt.ext + 1, ..pt.clone() }));
    }
    for (axis, q) in nb {
        rep.evals(1);
        rep.count(&format!("monotone_steps:{axis}"));
        match guard(|| q.bits()) {
            Ok((c2, u2, l2)) => {
                if c2 < c {
                    rep.violation(&format!("conjectured-decreases|{axis}"), json!({"point": format!("{pt:?}"), "bits": c, "after_step": c2}));
                }
                if u2 < u {
                    rep.violation(&format!("proven-unique-decoding-decreases|{axis}"), json!({"point": format!("{pt:?}"), "bits": u, "after_step": u2}));
                }
                if l2 < l {
                    rep.violation(&format!("proven-list-decoding-decreases|{axis}"), json!({"point": format!("{pt:?}"), "bits": l, "after_step": l2}));
                }
            },
            Err(p) => rep.violation(&format!("{}|security-compute", p.sig()), json!({"point": format!("{q:?}")})),
        }
    }
    rep.count(&format!("conjectured_bits_class:{}", c / 32));
    if rep.samples.len() < rep.max_samples {
        rep.sample(json!({"point": format!("{pt:?}"), "conjectured": c, "proven_udr": u, "proven_ldr": l}));
    }
}

fn validate_case<B: StarkField, H: Hasher>(rep: &mut Report, rng: &mut Rng, hname: &str, cr_doc: u32) {
    let mut pt = gen_pt(rng);
    pt.field = match B::MODULUS_BITS { 62 => 0, 64 => 1, _ => 2 };
    pt.hash = match cr_doc { 96 => 0, 124 => 1, _ => 2 };
    let width = pt.width;
    let options = if rng.bool() { pt.options().with_partitions(1 + rng.usize(16), 1 + rng.usize(255)) } else { pt.options() };
    let mut proof = Proof::new_dummy();
    proof.context = Context::new::<B>(TraceInfo::new(width, 1usize << pt.log_n), options.clone(), pt.constraints);
    rep.evals(1);
    rep.count(&format!("validate_cases:{hname}"));
    rep.distinct_key(format!("{hname}/{pt:?}/{width}").as_bytes());
    if H::COLLISION_RESISTANCE != cr_doc {
        rep.violation(&format!("collision-resistance-constant|{hname}"), json!({"got": H::COLLISION_RESISTANCE, "documented": cr_doc}));
    }
    let d = |extra: serde_like| json!({"hasher": hname, "point": format!("{pt:?}"), "width": width, "detail": extra});
    // expected bits: same context, through a hasher with the same documented collision resistance
    let (c, u, l) = pt.bits();
    let best = u.max(l);
    for b in [0u32, c.saturating_sub(1), c, c + 1, 96, 128, u32::MAX] {
        match guard(|| AcceptableOptions::MinConjecturedSecurity(b).validate::<H>(&proof).is_ok()) {
            Ok(ok) if ok != (c >= b) => rep.violation("validate-min-conjectured-disagrees-with-computed-security", d(format!("requested {b}, computed {c}, accepted {ok}"))),
            Ok(_) => {},
            Err(p) => rep.violation(&format!("{}|validate", p.sig()), d(format!("requested {b}"))),
        }
    }
    for b in [0u32, best.saturating_sub(1), best, best + 1, u.min(l) + 1, 96, u32::MAX] {
        match guard(|| AcceptableOptions::MinProvenSecurity(b).validate::<H>(&proof).is_ok()) {
            Ok(ok) if ok != (best >= b) => rep.violation("validate-min-proven-disagrees-with-computed-security", d(format!("requested {b}, computed udr {u} ldr {l}, accepted {ok}"))),
            Ok(_) => {},
            Err(p) => rep.violation(&format!("{}|validate", p.sig()), d(format!("requested {b}"))),
        }
    }
    // option sets: membership by full equality
    let mut others: Vec<ProofOptions> = vec![];
    for _ in 0..rng.usize(4) {
        others.push(gen_pt(rng).options());
    }
    // near misses: one field changed
    let mut near = pt.clone();
    match rng.usize(6) {
        0 => near.queries = if near.queries == 255 { 254 } else { near.queries + 1 },
        1 => near.grinding = (near.grinding + 1) % 33,
        2 => near.bc = (near.bc + 1) % 3,
        3 => near.bd = (near.bd + 1) % 3,
        4 => near.folding = if near.folding == 16 { 2 } else { near.folding * 2 },
        _ => near.ext = (near.ext + 1) % 3,
    }
    others.push(near.options());
    // same core options, different partitions
    others.push(pt.options().with_partitions(3, 7));
    let contains = others.iter().any(|o| *o == options);
    match guard(|| AcceptableOptions::OptionSet(others.clone()).validate::<H>(&proof).is_ok()) {
        Ok(ok) if ok != contains => rep.violation("validate-option-set-disagrees-with-membership", d(format!("member {contains}, accepted {ok}"))),
        Ok(_) => {},
        Err(p) => rep.violation(&format!("{}|validate", p.sig()), d("option set".into())),
    }
    let mut with = others.clone();
    with.insert(rng.usize(with.len() + 1), options.clone());
    match guard(|| AcceptableOptions::OptionSet(with).validate::<H>(&proof).is_ok()) {
        Ok(true) => {},
        Ok(false) => rep.violation("validate-option-set-rejects-member", d("own options in set".into())),
        Err(p) => rep.violation(&format!("{}|validate", p.sig()), d("option set".into())),
    }
    match guard(|| AcceptableOptions::OptionSet(vec![]).validate::<H>(&proof).is_ok()) {
        Ok(false) => {},
        Ok(true) => rep.violation("validate-empty-option-set-accepts", d("empty set".into())),
        Err(p) => rep.violation(&format!("{}|validate", p.sig()), d("empty option set".into())),
    }
}

#[allow(non_camel_case_types)]
type serde_like = String;

pub fn run(args: &Args) {
    let mut rep = Report::new("C25", "c25",
        "random grid points over queries 1..255, blowup 2..128, grinding 0..32, 3 extensions, 4 folding factors, 9 remainder degrees, 9 batching pairs, trace length 2^3..2^30, constraints 1..2^20, trace width 1..255, field bits {62,64,128}, collision resistance {96,124,128}: bounds (<= collision resistance, conjectured < extension bits), is_at_least vs bits, one-step monotonicity along queries / grinding / extension; full sweeps of the queries and grinding axes at sampled anchors; AcceptableOptions::validate on dummy proofs for 6 hashers x 3 fields vs the computed security at bits-1, bits, bits+1 and option-set membership; distinct = grid points");
    let seed = args.seed();
    let n = args.budget(4000, 120000);
    for case in 0..n {
        let mut rng = Rng::for_case(seed, 2500, case);
        let pt = gen_pt(&mut rng);
        rep.distinct_key(format!("{pt:?}").as_bytes());
        judge_point(&mut rep, &pt);
    }
    // full axis sweeps at anchors
    for case in 0..args.u64("sweeps", if args.thorough() { 300 } else { 12 }) {
        let mut rng = Rng::for_case(seed, 2501, case);
        let anchor = gen_pt(&mut rng);
        for q in 1..=255 {
            judge_point(&mut rep, &Pt { queries: q, ..anchor.clone() });
        }
        for g in 0..=32 {
            judge_point(&mut rep, &Pt { grinding: g, ..anchor.clone() });
        }
        rep.count("axis_sweeps");
    }
    for case in 0..args.u64("vcases", if args.thorough() { 20000 } else { 600 }) {
        let mut rng = Rng::for_case(seed, 2502, case);
        match case % 9 {
            0 => validate_case::<f64m::BaseElement, Blake3_256<f64m::BaseElement>>(&mut rep, &mut rng, "Blake3_256/f64", 128),
            1 => validate_case::<f128::BaseElement, Blake3_256<f128::BaseElement>>(&mut rep, &mut rng, "Blake3_256/f128", 128),
            2 => validate_case::<f62::BaseElement, Blake3_192<f62::BaseElement>>(&mut rep, &mut rng, "Blake3_192/f62", 96),
            3 => validate_case::<f128::BaseElement, Blake3_192<f128::BaseElement>>(&mut rep, &mut rng, "Blake3_192/f128", 96),
            4 => validate_case::<f64m::BaseElement, Sha3_256<f64m::BaseElement>>(&mut rep, &mut rng, "Sha3_256/f64", 128),
            5 => validate_case::<f62::BaseElement, Sha3_256<f62::BaseElement>>(&mut rep, &mut rng, "Sha3_256/f62", 128),
            6 => validate_case::<f64m::BaseElement, Rp64_256>(&mut rep, &mut rng, "Rp64_256/f64", 128),
            7 => validate_case::<f64m::BaseElement, RpJive64_256>(&mut rep, &mut rng, "RpJive64_256/f64", 128),
            _ => validate_case::<f62::BaseElement, Rp62_248>(&mut rep, &mut rng, "Rp62_248/f62", 124),
        }
    }
    rep.finish(&args.out());
}
