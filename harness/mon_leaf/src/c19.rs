//! C19: Merkle verification rejects wrong data and never panics.
//! Stage `c19_subst`: every single substitution into honest single and batch openings must be
//! rejected. Stage `c19_malformed` (worker protocol): arbitrary batch proofs / index lists / leaf
//! lists must make get_root, verify_batch and into_openings return, never panic.
use vcommon::{guard, hex, json, Args, Report, Rng, Worker};
use winter_crypto::hashers::{Blake3_192, Blake3_256, Rp62_248, Rp64_256, RpJive64_256, Sha3_256};
use winter_crypto::{BatchMerkleProof, Hasher, MerkleTree};
use winter_math::fields::{f128, f62, f64 as f64m};
use winter_utils::Deserializable;

fn gen_leaves<H: Hasher>(rng: &mut Rng, n: usize) -> Vec<H::Digest> {
    let salt = rng.bytes(16);
    (0..n)
        .map(|i| {
            let mut b = salt.clone();
            b.extend_from_slice(&(i as u64).to_le_bytes());
            H::hash(&b)
        })
        .collect()
}

fn other_digest<H: Hasher>(rng: &mut Rng) -> H::Digest {
    H::hash(&rng.bytes(24))
}

fn random_set(rng: &mut Rng, n: usize) -> Vec<usize> {
    let k = match rng.usize(3) {
        0 => 1 + rng.usize(2),
        1 => 1 + rng.usize(n.min(12)),
        _ => 1 + rng.usize(n),
    };
    let mut all: Vec<usize> = (0..n).collect();
    rng.shuffle(&mut all);
    all.truncate(k.clamp(1, n));
    if rng.bool() {
        all.sort_unstable();
    }
    all
}

// ------------------------------------------------------------------------------------------------
// substitutions
// ------------------------------------------------------------------------------------------------

fn expect_reject(rep: &mut Report, name: &str, what: &str, detail: vcommon::Value, r: Result<Result<(), String>, vcommon::PanicInfo>) {
    rep.evals(1);
    rep.count(&format!("subst:{what}"));
    match r {
        Ok(Err(_)) => {},
        Ok(Ok(())) => rep.violation(&format!("accepted|{what}|{name}"), detail),
        Err(p) => rep.violation(&format!("{}|{what}|{name}", p.sig()), detail),
    }
}

fn subst_tree<H: Hasher>(rep: &mut Report, name: &str, rng: &mut Rng, n: usize, nsets: usize) {
    let leaves = gen_leaves::<H>(rng, n);
    let tree = MerkleTree::<H>::new(leaves.clone()).expect("tree");
    let root = *tree.root();
    rep.distinct_key(format!("{name}/{n}/{}", hex(&winter_crypto::Digest::as_bytes(&root)[..6])).as_bytes());
    let ctx = json!({"hasher": name, "leaves": n});
    // ---- single openings
    let idxs: Vec<usize> = if n <= 32 { (0..n).collect() } else { (0..24).map(|_| rng.usize(n)).chain([0, n - 1]).collect() };
    for &i in &idxs {
        let (leaf, path) = tree.prove(i).expect("prove");
        if MerkleTree::<H>::verify(root, i, leaf, &path).is_err() {
            rep.inconclusive("honest-opening-rejected (C18's business)", json!({"ctx": ctx, "index": i}));
            continue;
        }
        // leaf substitutions: random digest, the sibling leaf, another leaf of the tree, default
        let cands = [other_digest::<H>(rng), leaves[i ^ 1], leaves[(i + 2) % n], H::Digest::default()];
        for (ci, c) in cands.iter().enumerate() {
            if *c == leaf {
                continue;
            }
            let r = guard(|| MerkleTree::<H>::verify(root, i, *c, &path).map_err(|e| format!("{e:?}")));
            expect_reject(rep, name, "single-leaf", json!({"ctx": ctx, "index": i, "candidate": ci}), r);
        }
        // node substitutions at every level
        for lvl in 0..path.len() {
            let cands = [other_digest::<H>(rng), leaf, path[(lvl + 1) % path.len()], H::Digest::default()];
            for (ci, c) in cands.iter().enumerate() {
                if *c == path[lvl] {
                    continue;
                }
                let mut p2 = path.clone();
                p2[lvl] = *c;
                let r = guard(|| MerkleTree::<H>::verify(root, i, leaf, &p2).map_err(|e| format!("{e:?}")));
                expect_reject(rep, name, "single-node", json!({"ctx": ctx, "index": i, "level": lvl, "candidate": ci}), r);
            }
        }
        // swapped leaf and first node (sibling order)
        if path[0] != leaf {
            let mut p2 = path.clone();
            p2[0] = leaf;
            let r = guard(|| MerkleTree::<H>::verify(root, i, path[0], &p2).map_err(|e| format!("{e:?}")));
            expect_reject(rep, name, "single-leaf-sibling-swapped", json!({"ctx": ctx, "index": i}), r);
        }
        // every other in-range index (all for small trees; bit flips + sample above)
        let others: Vec<usize> = if n <= 64 {
            (0..n).filter(|&j| j != i).collect()
        } else {
            let mut v: Vec<usize> = (0..n.trailing_zeros()).map(|b| i ^ (1 << b)).collect();
            v.extend((0..16).map(|_| rng.usize(n)).filter(|&j| j != i));
            v
        };
        for j in others {
            let r = guard(|| MerkleTree::<H>::verify(root, j, leaf, &path).map_err(|e| format!("{e:?}")));
            expect_reject(rep, name, "single-index", json!({"ctx": ctx, "index": i, "claimed": j}), r);
        }
        // truncated / extended path against the same root
        if path.len() > 1 {
            let p2 = path[..path.len() - 1].to_vec();
            let r = guard(|| MerkleTree::<H>::verify(root, i, leaf, &p2).map_err(|e| format!("{e:?}")));
            expect_reject(rep, name, "single-path-truncated", json!({"ctx": ctx, "index": i}), r);
        }
        let mut p2 = path.clone();
        p2.push(other_digest::<H>(rng));
        let r = guard(|| MerkleTree::<H>::verify(root, i, leaf, &p2).map_err(|e| format!("{e:?}")));
        expect_reject(rep, name, "single-path-extended", json!({"ctx": ctx, "index": i}), r);
    }
    // ---- batch openings
    for s in 0..nsets {
        let idx = if n <= 8 && s < (1 << n) - 1 {
            // all subsets first for tiny trees
            let mask = s + 1;
            (0..n).filter(|b| mask >> b & 1 == 1).collect::<Vec<_>>()
        } else {
            random_set(rng, n)
        };
        let (bl, proof) = tree.prove_batch(&idx).expect("prove_batch");
        let verify = |idx: &[usize], bl: &[H::Digest], nodes: &Vec<Vec<H::Digest>>, depth: u8| {
            let p = BatchMerkleProof::<H> { nodes: nodes.clone(), depth };
            MerkleTree::<H>::verify_batch(&root, idx, bl, &p).map_err(|e| format!("{e:?}"))
        };
        if verify(&idx, &bl, &proof.nodes, proof.depth).is_err() {
            rep.inconclusive("honest-batch-rejected (C18's business)", json!({"ctx": ctx, "indexes": idx}));
            continue;
        }
        let bctx = json!({"ctx": ctx, "indexes": if idx.len() <= 20 { json!(idx) } else { json!(idx.len()) }});
        // every leaf changed
        for k in 0..idx.len() {
            for (ci, c) in [other_digest::<H>(rng), leaves[idx[k] ^ 1], H::Digest::default()].iter().enumerate() {
                if *c == bl[k] {
                    continue;
                }
                let mut l2 = bl.clone();
                l2[k] = *c;
                let r = guard(|| verify(&idx, &l2, &proof.nodes, proof.depth));
                expect_reject(rep, name, "batch-leaf", json!({"b": bctx, "position": k, "candidate": ci}), r);
            }
        }
        // every node changed
        for a in 0..proof.nodes.len() {
            for b in 0..proof.nodes[a].len() {
                let mut n2 = proof.nodes.clone();
                n2[a][b] = if rng.bool() { other_digest::<H>(rng) } else { bl[0] };
                if n2[a][b] == proof.nodes[a][b] {
                    continue;
                }
                let r = guard(|| verify(&idx, &bl, &n2, proof.depth));
                expect_reject(rep, name, "batch-node", json!({"b": bctx, "node": [a, b]}), r);
            }
        }
        // a node the tree's proof does not have, appended to one vector (single-index batches
        // included: the proof is then an over-long ordinary path)
        for a in 0..proof.nodes.len() {
            let mut n2 = proof.nodes.clone();
            let extra = if rng.bool() { other_digest::<H>(rng) } else { n2[a].last().copied().unwrap_or(bl[0]) };
            n2[a].push(extra);
            let r = guard(|| verify(&idx, &bl, &n2, proof.depth));
            expect_reject(rep, name, if idx.len() == 1 { "batch-node-appended:single-index" } else { "batch-node-appended" }, json!({"b": bctx, "vector": a}), r);
        }
        // a whole node vector the tree's proof does not have (empty, or of the usual length),
        // appended or inserted
        for (what, v) in [("empty", vec![]), ("full", (0..proof.depth as usize).map(|_| other_digest::<H>(rng)).collect::<Vec<_>>())] {
            let mut n2 = proof.nodes.clone();
            let at = if rng.bool() { n2.len() } else { rng.usize(n2.len() + 1) };
            n2.insert(at, v);
            let r = guard(|| verify(&idx, &bl, &n2, proof.depth));
            expect_reject(rep, name, "batch-node-vector-added", json!({"b": bctx, "at": at, "vector": what}), r);
        }
        // two nodes of one vector swapped / two vectors swapped
        for a in 0..proof.nodes.len() {
            if proof.nodes[a].len() >= 2 && proof.nodes[a][0] != proof.nodes[a][1] {
                let mut n2 = proof.nodes.clone();
                n2[a].swap(0, 1);
                let r = guard(|| verify(&idx, &bl, &n2, proof.depth));
                expect_reject(rep, name, "batch-nodes-swapped", json!({"b": bctx, "vector": a}), r);
            }
            if a + 1 < proof.nodes.len() && proof.nodes[a] != proof.nodes[a + 1] {
                let mut n2 = proof.nodes.clone();
                n2.swap(a, a + 1);
                let r = guard(|| verify(&idx, &bl, &n2, proof.depth));
                expect_reject(rep, name, "batch-node-vectors-swapped", json!({"b": bctx, "vector": a}), r);
            }
        }
        // every index changed to an in-range index outside the set (all for small n)
        let outside: Vec<usize> = (0..n).filter(|j| !idx.contains(j)).collect();
        for k in 0..idx.len() {
            let cands: Vec<usize> = if outside.len() <= 16 { outside.clone() } else { (0..6).map(|_| *rng.pick(&outside)).chain([idx[k] ^ 1].into_iter().filter(|j| !idx.contains(j))).collect() };
            for j in cands {
                let mut i2 = idx.clone();
                i2[k] = j;
                let r = guard(|| verify(&i2, &bl, &proof.nodes, proof.depth));
                expect_reject(rep, name, "batch-index", json!({"b": bctx, "position": k, "claimed": j}), r);
            }
            // out of range
            for j in [n, n + idx[k], n * 2 + idx[k], usize::MAX, usize::MAX - 1, 1usize << 63] {
                let mut i2 = idx.clone();
                i2[k] = j;
                let r = guard(|| verify(&i2, &bl, &proof.nodes, proof.depth));
                expect_reject(rep, name, "batch-index-out-of-range", json!({"b": bctx, "position": k, "claimed": j}), r);
            }
            // duplicate of another listed index (adjacent or not)
            if idx.len() >= 2 {
                for src in [(k + 1) % idx.len(), (k + idx.len() - 1) % idx.len(), rng.usize(idx.len())] {
                    if src == k {
                        continue;
                    }
                    let mut i2 = idx.clone();
                    i2[k] = idx[src];
                    let r = guard(|| verify(&i2, &bl, &proof.nodes, proof.depth));
                    expect_reject(rep, name, "batch-index-duplicated", json!({"b": bctx, "position": k, "copy_of": src}), r);
                }
            }
        }
        // duplicate appended (with its leaf), at the end and in the middle
        {
            let k = rng.usize(idx.len());
            let (mut i2, mut l2) = (idx.clone(), bl.clone());
            i2.push(idx[k]);
            l2.push(bl[k]);
            let r = guard(|| verify(&i2, &l2, &proof.nodes, proof.depth));
            expect_reject(rep, name, "batch-index-duplicate-appended", json!({"b": bctx, "dup": idx[k]}), r);
            let (mut i3, mut l3) = (idx.clone(), bl.clone());
            let pos = rng.usize(idx.len() + 1);
            i3.insert(pos, idx[k]);
            l3.insert(pos, bl[k]);
            let r = guard(|| verify(&i3, &l3, &proof.nodes, proof.depth));
            expect_reject(rep, name, "batch-index-duplicate-inserted", json!({"b": bctx, "dup": idx[k], "at": pos}), r);
        }
        // two indexes swapped, leaves kept
        if idx.len() >= 2 {
            let a = rng.usize(idx.len());
            let b = (a + 1 + rng.usize(idx.len() - 1)) % idx.len();
            let mut i2 = idx.clone();
            i2.swap(a, b);
            let r = guard(|| verify(&i2, &bl, &proof.nodes, proof.depth));
            expect_reject(rep, name, "batch-indexes-swapped", json!({"b": bctx, "swap": [a, b]}), r);
        }
        // a leaf missing (last, first)
        {
            let r = guard(|| verify(&idx, &bl[..bl.len() - 1], &proof.nodes, proof.depth));
            expect_reject(rep, name, "batch-leaf-missing", bctx.clone(), r);
            let r = guard(|| verify(&idx, &bl[1..], &proof.nodes, proof.depth));
            expect_reject(rep, name, "batch-first-leaf-missing", bctx.clone(), r);
        }
        // an index dropped with its leaf (proof then has the wrong shape or resolves elsewhere)
        if idx.len() >= 2 {
            let k = rng.usize(idx.len());
            let (mut i2, mut l2) = (idx.clone(), bl.clone());
            i2.remove(k);
            l2.remove(k);
            let r = guard(|| verify(&i2, &l2, &proof.nodes, proof.depth));
            expect_reject(rep, name, "batch-opening-dropped", json!({"b": bctx, "position": k}), r);
        }
        // no indexes at all
        let r = guard(|| verify(&[], &[], &proof.nodes, proof.depth));
        expect_reject(rep, name, "batch-empty", bctx.clone(), r);
        // wrong root
        {
            let p = BatchMerkleProof::<H> { nodes: proof.nodes.clone(), depth: proof.depth };
            let wrong = other_digest::<H>(rng);
            let r = guard(|| MerkleTree::<H>::verify_batch(&wrong, &idx, &bl, &p).map_err(|e| format!("{e:?}")));
            expect_reject(rep, name, "batch-wrong-root", bctx.clone(), r);
        }
        // depth changed
        for d in [proof.depth.wrapping_sub(1), proof.depth + 1, 0, 64, 255] {
            if d == proof.depth {
                continue;
            }
            let r = guard(|| verify(&idx, &bl, &proof.nodes, d));
            expect_reject(rep, name, "batch-depth", json!({"b": bctx, "depth": d}), r);
        }
        if rep.samples.len() < rep.max_samples {
            rep.sample(json!({"hasher": name, "leaves": n, "indexes": idx.iter().take(12).collect::<Vec<_>>(), "substitutions_so_far": rep.evaluations}));
        }
    }
}

fn subst_hasher<H: Hasher>(rep: &mut Report, name: &str, seed: u64, thorough: bool, heavy: bool) {
    let maxk = if heavy { if thorough { 7 } else { 5 } } else if thorough { 11 } else { 8 };
    for k in 1..=maxk {
        let n = 1usize << k;
        let mut rng = Rng::for_case(seed, 1900 + k as u64, vcommon::fnv(name.as_bytes()));
        let nsets = match (n <= 8, thorough, heavy) {
            (true, _, false) => (1 << n) - 1 + 6,
            (true, _, true) => ((1 << n) - 1).min(20),
            (false, true, false) => 40,
            (false, false, false) => 10,
            (false, true, true) => 8,
            (false, false, true) => 3,
        };
        subst_tree::<H>(rep, name, &mut rng, n, nsets);
    }
}

pub fn subst(args: &Args) {
    let mut rep = Report::new("C19", "c19_subst",
        "honest single and batch openings of trees with 2..2^K distinct leaves x 6 hashers; every single substitution (leaf, each path/proof node, index -> every other in-range index (all for <= 64 leaves), out-of-range and duplicated indexes (adjacent and not), swapped indexes, swapped nodes, a surplus node appended to a proof vector (single-index batches included), a surplus node vector added, missing leaf, dropped opening, depth, root) must be rejected; evaluation = one substitution; distinct = trees");
    let (seed, thorough) = (args.seed(), args.thorough());
    subst_hasher::<Blake3_256<f64m::BaseElement>>(&mut rep, "Blake3_256", seed, thorough, false);
    subst_hasher::<Blake3_192<f62::BaseElement>>(&mut rep, "Blake3_192", seed, thorough, false);
    subst_hasher::<Sha3_256<f128::BaseElement>>(&mut rep, "Sha3_256", seed, thorough, false);
    subst_hasher::<Rp64_256>(&mut rep, "Rp64_256", seed, thorough, true);
    subst_hasher::<RpJive64_256>(&mut rep, "RpJive64_256", seed, thorough, true);
    subst_hasher::<Rp62_248>(&mut rep, "Rp62_248", seed, thorough, true);
    rep.finish(&args.out());
}

// ------------------------------------------------------------------------------------------------
// malformed inputs: nothing may panic
// ------------------------------------------------------------------------------------------------

fn weird_index(rng: &mut Rng, n: usize) -> usize {
    match rng.usize(10) {
        0 => usize::MAX,
        1 => usize::MAX - 1,
        2 => 1usize << 63,
        3 => n,
        4 => n + 1,
        5 => (1usize << 32) + rng.usize(4),
        6 => 2 * n + rng.usize(n.max(1)),
        _ => rng.usize(n.max(1) * 2),
    }
}

fn weird_depth(rng: &mut Rng, d: u8) -> u8 {
    match rng.usize(12) {
        0 => 0,
        1 => 1,
        2 => d.wrapping_add(1),
        3 => d.wrapping_sub(1),
        4 => 63,
        5 => 64,
        6 => 65,
        7 => 255,
        8 => 32,
        9 => 31,
        _ => rng.u8(),
    }
}

fn malformed_case<H: Hasher>(rep: &mut Report, name: &str, rng: &mut Rng, case: u64) {
    let k = 1 + rng.usize(6);
    let n = 1usize << k;
    let leaves = gen_leaves::<H>(rng, n);
    let tree = MerkleTree::<H>::new(leaves.clone()).expect("tree");
    let root = *tree.root();
    let mode = rng.usize(4);
    let (mut idx, mut bl, mut nodes, mut depth): (Vec<usize>, Vec<H::Digest>, Vec<Vec<H::Digest>>, u8);
    if mode < 3 {
        idx = random_set(rng, n);
        let (l, p) = tree.prove_batch(&idx).expect("prove_batch");
        bl = l;
        nodes = p.nodes;
        depth = p.depth;
        // 1..4 structural mutations
        for _ in 0..1 + rng.usize(4) {
            match rng.usize(16) {
                0 => depth = weird_depth(rng, depth),
                1 => {
                    if !nodes.is_empty() {
                        let a = rng.usize(nodes.len());
                        nodes[a].clear();
                    }
                },
                2 => {
                    if !nodes.is_empty() {
                        let a = rng.usize(nodes.len());
                        nodes[a].pop();
                    }
                },
                3 => {
                    if !nodes.is_empty() {
                        let a = rng.usize(nodes.len());
                        nodes[a].push(other_digest::<H>(rng));
                    }
                },
                4 => {
                    if !nodes.is_empty() {
                        let a = rng.usize(nodes.len());
                        nodes.remove(a);
                    }
                },
                5 => {
                    let a = rng.usize(nodes.len() + 1);
                    let len = rng.usize(4);
                    nodes.insert(a, (0..len).map(|_| other_digest::<H>(rng)).collect());
                },
                6 => {
                    let a = rng.usize(idx.len());
                    idx[a] = weird_index(rng, n);
                },
                7 => {
                    let a = rng.usize(idx.len());
                    idx[a] ^= 1;
                },
                8 => {
                    let a = rng.usize(idx.len());
                    let b = rng.usize(idx.len());
                    idx[a] = idx[b];
                },
                9 => {
                    idx.push(weird_index(rng, n));
                },
                10 => {
                    bl.pop();
                },
                11 => {
                    bl.push(other_digest::<H>(rng));
                },
                12 => {
                    if idx.len() > 1 {
                        let a = rng.usize(idx.len());
                        idx.remove(a);
                    }
                },
                13 => {
                    bl.clear();
                },
                14 => {
                    nodes.clear();
                },
                _ => {
                    idx.reverse();
                },
            }
        }
    } else {
        depth = if rng.bool() { rng.usize(8) as u8 } else { weird_depth(rng, k as u8) };
        let ni = rng.usize(7);
        idx = (0..ni).map(|_| if rng.chance(1, 5) { weird_index(rng, n) } else { rng.usize(1usize << (depth.min(20))) }).collect();
        let nl = if rng.chance(2, 3) { ni } else { rng.usize(8) };
        bl = (0..nl).map(|_| other_digest::<H>(rng)).collect();
        let nv = if rng.chance(1, 2) { ni } else { rng.usize(8) };
        nodes = (0..nv).map(|_| (0..rng.usize(depth.min(10) as usize + 2)).map(|_| other_digest::<H>(rng)).collect()).collect();
    }
    let desc = json!({"hasher": name, "case": case, "mode": mode, "depth": depth, "indexes": idx, "num_leaves": bl.len(),
        "node_vector_lens": nodes.iter().map(|v| v.len()).collect::<Vec<_>>()});
    rep.case(format!("{name}/{depth}/{idx:?}/{}/{:?}", bl.len(), nodes.iter().map(|v| v.len()).collect::<Vec<_>>()).as_bytes(), true);
    let mk = || BatchMerkleProof::<H> { nodes: nodes.clone(), depth };
    for (fname, r) in [
        ("get_root", guard(|| mk().get_root(&idx, &bl).is_ok())),
        ("verify_batch", guard(|| MerkleTree::<H>::verify_batch(&root, &idx, &bl, &mk()).is_ok())),
        ("into_openings", guard(|| mk().into_openings(&bl, &idx).is_ok())),
    ] {
        match r {
            Ok(ok) => rep.count(&format!("{fname}:{}", if ok { "ok" } else { "err" })),
            Err(p) => rep.violation(&format!("{}|{fname}", p.sig()), desc.clone()),
        }
    }
    // hostile encodings of a batch proof: decode, then use
    if rng.chance(1, 4) {
        let mut bytes = winter_utils::Serializable::to_bytes(&mk());
        for _ in 0..1 + rng.usize(3) {
            if bytes.is_empty() {
                break;
            }
            let p = rng.usize(bytes.len().min(12));
            bytes[p] = *rng.pick(&[0u8, 1, 0x7f, 0x80, 0xfe, 0xff, 64, 65]);
        }
        if rng.chance(1, 3) {
            let cut = rng.usize(bytes.len() + 1);
            bytes.truncate(cut);
        }
        rep.count("decoded_hostile_encodings");
        match guard(|| BatchMerkleProof::<H>::read_from_bytes(&bytes).map(|p| (p.get_root(&idx, &bl).is_ok(), p.into_openings(&bl, &idx).is_ok())).is_ok()) {
            Ok(_) => {},
            Err(p) => rep.violation(&format!("{}|read_from_bytes+use", p.sig()), json!({"d": desc, "bytes": hex(&bytes[..bytes.len().min(64)])})),
        }
    }
    if rep.samples.len() < rep.max_samples {
        rep.sample(desc);
    }
}

pub fn malformed(args: &Args) {
    let mut rep = Report::new("C19", "c19_malformed",
        "structurally mutated honest batch proofs (depth, emptied/shortened/extended/removed/inserted node vectors, huge / out-of-range / duplicated / flipped indexes, missing / extra leaves) and fully random (depth 0..255, ragged nodes, random indexes and leaves) x 6 hashers; get_root, verify_batch, into_openings and decode-then-use must return without panicking; distinct = (depth, indexes, shape)");
    let seed = args.seed();
    let mut w = Worker::new(args, 1000);
    for case in w.from..w.to {
        if !w.start(case, &mut rep) {
            continue;
        }
        let mut rng = Rng::for_case(seed, 1950, case);
        match case % 8 {
            0 | 1 | 2 => malformed_case::<Blake3_256<f64m::BaseElement>>(&mut rep, "Blake3_256", &mut rng, case),
            3 => malformed_case::<Blake3_192<f128::BaseElement>>(&mut rep, "Blake3_192", &mut rng, case),
            4 => malformed_case::<Sha3_256<f62::BaseElement>>(&mut rep, "Sha3_256", &mut rng, case),
            5 => malformed_case::<Rp64_256>(&mut rep, "Rp64_256", &mut rng, case),
            6 => malformed_case::<RpJive64_256>(&mut rep, "RpJive64_256", &mut rng, case),
            _ => malformed_case::<Rp62_248>(&mut rep, "Rp62_248", &mut rng, case),
        }
    }
    rep.finish(&args.out());
}
