//! C11: field constants (executed oracles on the code's own constants) and canonical encodings
//! (every decoder accepts exactly the values below the modulus).
use vcommon::refarith::{self, addm, is_prime, mulm, poly_degree, poly_divrem, powm, Ext, ExtSpec};
use vcommon::{guard, hex, json, Args, Report, Rng};
use vwf::{BaseFut, Fut};
use winter_math::fields::{f128, f62, f64 as f64m, CubeExtension, QuadExtension};
use winter_math::{FieldElement, StarkField};
use winter_utils::Serializable;

fn le_bytes(v: u128, n: usize) -> Vec<u8> {
    v.to_le_bytes()[..n].to_vec()
}

// ------------------------------------------------------------------------------------------------
// constants
// ------------------------------------------------------------------------------------------------

fn constants<B: BaseFut + Fut<B = B>>(rep: &mut Report) {
    let fs = B::SPEC;
    let name = fs.name;
    let p = fs.p;
    let nbytes = B::ELEMENT_BYTES;
    let mut bad = |what: &str, d: vcommon::Value| rep.violation(&format!("constant|{name}|{what}"), d);

    // modulus: the code's own bytes, primality, documented form
    let mb = B::get_modulus_le_bytes();
    let mut m: u128 = 0;
    for (i, b) in mb.iter().enumerate() {
        m |= (*b as u128) << (8 * i);
    }
    if m != p || mb.len() != nbytes {
        bad("modulus-differs-from-documented", json!({"code": m.to_string(), "documented": p.to_string()}));
    }
    if !is_prime(m, 40) {
        bad("modulus-not-prime", json!({"modulus": m.to_string()}));
    }
    if B::MODULUS_BITS != 128 - m.leading_zeros() {
        bad("modulus-bits", json!({"code": B::MODULUS_BITS, "actual": 128 - m.leading_zeros()}));
    }
    // two-adicity by trial division on the code's modulus
    let mut t = 0;
    let mut k = m - 1;
    while k & 1 == 0 {
        k >>= 1;
        t += 1;
    }
    if B::TWO_ADICITY != t {
        bad("two-adicity", json!({"code": B::TWO_ADICITY, "actual": t}));
    }
    // generator generates the whole group: g^((p-1)/q) != 1 for every prime q | p-1
    let g = B::GENERATOR.int();
    if g == 0 || g >= p {
        bad("generator-out-of-range", json!({"g": g.to_string()}));
    }
    for q in fs.factors {
        if powm(g, (p - 1) / q, p) == 1 {
            bad("generator-not-primitive", json!({"g": g.to_string(), "q": q.to_string()}));
        }
    }
    // two-adic root: order exactly 2^two_adicity and equal to g^k as documented
    let w = B::TWO_ADIC_ROOT_OF_UNITY.int();
    if powm(w, 1u128 << t, p) != 1 || powm(w, 1u128 << (t - 1), p) == 1 {
        bad("two-adic-root-order", json!({"root": w.to_string()}));
    }
    // (the trait documents the root as GENERATOR^k; f64 deliberately picks another primitive
    // 2^32-th root so that 8 generates the 64-element domain. The property only asks for the exact
    // order, so g^k equality is recorded, not judged.)
    let root_is_g_to_k = w == powm(g, k, p);
    // every root-of-unity order, exhaustively
    let mut prev: Option<u128> = None;
    for n in (1..=t).rev() {
        let r = match guard(|| B::get_root_of_unity(n)) {
            Ok(r) => r.int(),
            Err(pn) => {
                rep.violation(&format!("constant|{name}|root-of-unity-{}", pn.sig()), json!({"n": n}));
                continue;
            },
        };
        rep.evals(1);
        rep.count(&format!("root_orders_checked:{name}"));
        let ok = powm(r, 1u128 << n, p) == 1 && powm(r, 1u128 << (n - 1), p) != 1;
        if !ok {
            rep.violation(&format!("constant|{name}|root-of-unity-wrong-order"), json!({"n": n, "root": r.to_string()}));
        }
        if let Some(pr) = prev {
            // root(n) must be the square of root(n+1): the domains are nested
            if mulm(pr, pr, p) != r {
                rep.violation(&format!("constant|{name}|root-of-unity-not-nested"), json!({"n": n, "root": r.to_string()}));
            }
        }
        prev = Some(r);
    }
    // requesting an order beyond the two-adicity / zero must not return a value silently
    for n in [0u32, t + 1] {
        if let Ok(r) = guard(|| B::get_root_of_unity(n)) {
            rep.violation(&format!("constant|{name}|root-of-unity-for-unsupported-order"), json!({"n": n, "root": r.int().to_string()}));
        }
    }
    // ZERO / ONE
    if B::ZERO.int() != 0 || B::ONE.int() != 1 {
        rep.violation(&format!("constant|{name}|zero-one"), json!({"zero": B::ZERO.int().to_string(), "one": B::ONE.int().to_string()}));
    }
    rep.extra.insert(format!("root_is_generator_to_k:{name}"), json!(root_is_g_to_k));
    rep.distinct_key(format!("constants{name}").as_bytes());
}

fn gcd_has_root(es: &ExtSpec) -> bool {
    // f = x^d - red; has a root in F_p iff gcd(x^p - x, f) is non-constant. All polynomial
    // arithmetic over the prime field (ExtSpec of degree 1).
    let base = ExtSpec { p: es.p, deg: 1, red: [0, 0, 0] };
    let d = es.deg;
    let mut f: Vec<Ext> = (0..d).map(|i| [refarith::negm(es.red[i], es.p), 0, 0]).collect();
    f.push([1, 0, 0]);
    // x^p mod f computed in the quotient ring (ExtSpec::pow only uses the reduction rule)
    let xp = es.pow([0, 1, 0], es.p);
    let mut g: Vec<Ext> = (0..d).map(|i| [xp[i], 0, 0]).collect();
    g[1] = [refarith::subm(g[1][0], 1, es.p), 0, 0]; // x^p - x
    // Euclid
    let (mut a, mut b) = (f, g);
    loop {
        if b.iter().all(|c| *c == [0, 0, 0]) {
            break;
        }
        let (_, r) = poly_divrem(&base, &a, &b);
        a = b;
        b = r;
        while b.len() > 1 && *b.last().unwrap() == [0, 0, 0] {
            b.pop();
        }
    }
    poly_degree(&a) >= 1
}

fn extension_constants<E: Fut>(rep: &mut Report) {
    let es = E::spec();
    let name = E::name();
    let d = E::DEG;
    // 1. the code's reduction rule is the documented polynomial: phi^d computed by the code
    let mut phi_parts = [E::B::ZERO; 3];
    phi_parts[1] = E::B::ONE;
    let phi = E::from_parts(phi_parts);
    let mut pw = phi;
    for _ in 1..d {
        pw *= phi;
    }
    let got = pw.to_ref();
    if got != es.red {
        rep.violation(&format!("constant|{name}|extension-polynomial-differs-from-documented"),
            json!({"phi^d (code)": format!("{:?}", &got[..d]), "documented": format!("{:?}", &es.red[..d])}));
    }
    // 2. the documented polynomial has no root in the base field (degree 2 and 3 => irreducible)
    rep.evals(1);
    if gcd_has_root(&es) {
        rep.violation(&format!("constant|{name}|extension-polynomial-reducible"), json!({"red": format!("{:?}", &es.red[..d])}));
    }
    // 3. sanity of the root test itself on a reducible polynomial: x^d - 1 has the root 1
    let mut red1 = [0u128; 3];
    red1[0] = 1;
    if !gcd_has_root(&ExtSpec { p: es.p, deg: d, red: red1 }) {
        rep.inconclusive("root-test-selfcheck-failed", json!({"field": name}));
    }
    rep.distinct_key(format!("ext{name}").as_bytes());
}

fn frobenius<E: Fut>(rep: &mut Report, seed: u64, n: u64) {
    let es = E::spec();
    let name = E::name();
    let mut rng = Rng::for_case(seed, 1100 + E::DEG as u64, E::B::SPEC.p as u64);
    for i in 0..n {
        let (x, xv) = E::gen(&mut rng);
        rep.evals(1);
        let want = es.pow(xv, es.p);
        let got = x.frob().to_ref();
        let conj = x.conjugate().to_ref();
        if got != want || conj != want {
            rep.violation(&format!("frobenius-is-not-pth-power|{name}"),
                json!({"x": format!("{:?}", &xv[..E::DEG]), "frobenius": format!("{:?}", &got[..E::DEG]), "conjugate": format!("{:?}", &conj[..E::DEG]), "x^p": format!("{:?}", &want[..E::DEG])}));
        }
        if i < 1 {
            rep.sample(json!({"field": name, "x": format!("{:?}", &xv[..E::DEG]), "x^p": format!("{:?}", &want[..E::DEG])}));
        }
        rep.distinct_key(format!("frob{name}{xv:?}").as_bytes());
    }
}

// ------------------------------------------------------------------------------------------------
// decoders
// ------------------------------------------------------------------------------------------------

fn special_ints(p: u128, nbytes: usize, rng: &mut Rng) -> Vec<u128> {
    let max: u128 = if nbytes == 16 { u128::MAX } else { (1u128 << (8 * nbytes)) - 1 };
    let mut v = vec![0, 1, 2, p - 2, p - 1, p, p + 1, p + 2, max, max - 1, p / 2, 1 << 32, 1 << 63];
    if nbytes == 8 {
        v.extend([2 * p - 1, 2 * p, 2 * p + 1, (1u128 << 62) - 1, 1u128 << 62]);
    }
    for _ in 0..6 {
        v.push(rng.below128(p));
        let above = p + rng.below128(max - p + 1);
        v.push(above);
        v.push(p.wrapping_add(rng.below(1 << 20) as u128) & max);
    }
    v.into_iter().filter(|x| *x <= max).collect()
}

/// every byte-level decoder of element type E on one byte string
fn decode_all<E: Fut>(rep: &mut Report, bytes: &[u8], coeffs: &[u128]) {
    let name = E::name();
    let p = E::B::SPEC.p;
    let valid = coeffs.iter().all(|c| *c < p) && bytes.len() == E::ELEMENT_BYTES;
    let mut want = [0u128; 3];
    if valid {
        want[..coeffs.len()].copy_from_slice(coeffs);
    }
    let results: Vec<(&str, Result<Option<E>, vcommon::PanicInfo>)> = vec![
        ("TryFrom<&[u8]>", guard(|| E::try_from(bytes).ok())),
        ("read_from_bytes", guard(|| if bytes.len() == E::ELEMENT_BYTES { E::read_from_bytes(bytes).ok() } else { None })),
        ("from_random_bytes", guard(|| if bytes.len() == E::ELEMENT_BYTES { E::from_random_bytes(bytes) } else { None })),
    ];
    for (dec, r) in results {
        rep.evals(1);
        rep.count(&format!("decoder:{dec}"));
        match r {
            Err(pn) => rep.violation(&format!("decoder-{}|{name}|{dec}", pn.sig()), json!({"bytes": hex(bytes)})),
            Ok(None) => {
                if valid {
                    rep.violation(&format!("decoder-rejects-canonical-value|{name}|{dec}"), json!({"bytes": hex(bytes), "coefficients": format!("{coeffs:?}")}));
                } else {
                    rep.count("rejected-as-expected");
                }
            },
            Ok(Some(e)) => {
                if !valid {
                    rep.violation(&format!("decoder-accepts-non-canonical-value|{name}|{dec}"),
                        json!({"bytes": hex(bytes), "coefficients": format!("{coeffs:?}"), "decoded": format!("{:?}", &e.to_ref()[..E::DEG])}));
                } else {
                    if e.to_ref() != want {
                        rep.violation(&format!("decoder-wrong-value|{name}|{dec}"), json!({"bytes": hex(bytes), "decoded": format!("{:?}", &e.to_ref()[..E::DEG])}));
                    }
                    // encoding of the decoded element is the same canonical bytes
                    let enc = e.to_bytes();
                    if enc != bytes {
                        rep.violation(&format!("encoding-not-canonical-le|{name}"), json!({"bytes": hex(bytes), "re-encoded": hex(&enc)}));
                    }
                }
            },
        }
    }
}

fn decoders_for<E: Fut>(rep: &mut Report, seed: u64, rounds: u64) {
    let p = E::B::SPEC.p;
    let nb = E::B::ELEMENT_BYTES;
    let mut rng = Rng::for_case(seed, 1150 + E::DEG as u64, p as u64);
    for round in 0..rounds {
        let ints = special_ints(p, nb, &mut rng);
        for v in &ints {
            // the special value in one coefficient, valid/other values in the others
            for pos in 0..E::DEG {
                let mut coeffs = vec![0u128; E::DEG];
                for (i, c) in coeffs.iter_mut().enumerate() {
                    *c = if i == pos { *v } else if rng.bool() { rng.below128(p) } else { *rng.pick(&[0, 1, p - 1]) };
                }
                let bytes: Vec<u8> = coeffs.iter().flat_map(|c| le_bytes(*c, nb)).collect();
                rep.distinct_key(&bytes);
                decode_all::<E>(rep, &bytes, &coeffs);
                if round == 0 && pos == 0 && *v == p {
                    rep.sample(json!({"field": E::name(), "bytes": hex(&bytes), "expect": "rejected by every decoder (coefficient == modulus)"}));
                }
            }
        }
        // wrong lengths
        for len in [0, 1, nb - 1, nb + 1, E::ELEMENT_BYTES - 1, E::ELEMENT_BYTES + 1, 2 * E::ELEMENT_BYTES] {
            if len == E::ELEMENT_BYTES {
                continue;
            }
            let bytes = vec![0u8; len];
            decode_all::<E>(rep, &bytes, &[]);
        }
    }
}

/// integer conversions and constructors of the base fields
fn ints_for<B: BaseFut + Fut<B = B>>(rep: &mut Report, seed: u64, rounds: u64)
where
    B: TryFrom<u64> + TryFrom<u128> + From<u32> + From<u16> + From<u8>,
{
    let name = B::SPEC.name;
    let p = B::SPEC.p;
    let nb = B::ELEMENT_BYTES;
    let mut rng = Rng::for_case(seed, 1170, p as u64);
    for _ in 0..rounds {
        for v in special_ints(p, 16, &mut rng).into_iter().chain(special_ints(p, nb, &mut rng)) {
            rep.evals(2);
            // TryFrom<u128>
            match guard(|| B::try_from(v).ok()) {
                Err(pn) => rep.violation(&format!("decoder-{}|{name}|TryFrom<u128>", pn.sig()), json!({"v": v.to_string()})),
                Ok(Some(e)) => {
                    if v >= p || e.int() != v {
                        rep.violation(&format!("integer-conversion-wrong|{name}|TryFrom<u128>"), json!({"v": v.to_string(), "decoded": e.int().to_string()}));
                    }
                },
                Ok(None) => {
                    if v < p {
                        rep.violation(&format!("decoder-rejects-canonical-value|{name}|TryFrom<u128>"), json!({"v": v.to_string()}));
                    }
                },
            }
            if v <= u64::MAX as u128 {
                match guard(|| B::try_from(v as u64).ok()) {
                    Err(pn) => rep.violation(&format!("decoder-{}|{name}|TryFrom<u64>", pn.sig()), json!({"v": v.to_string()})),
                    Ok(Some(e)) => {
                        if v >= p || e.int() != v {
                            rep.violation(&format!("integer-conversion-wrong|{name}|TryFrom<u64>"), json!({"v": v.to_string(), "decoded": e.int().to_string()}));
                        }
                    },
                    Ok(None) => {
                        if v < p {
                            rep.violation(&format!("decoder-rejects-canonical-value|{name}|TryFrom<u64>"), json!({"v": v.to_string()}));
                        }
                    },
                }
            }
            rep.distinct_key(format!("int{name}{v}").as_bytes());
        }
        for v in [0u32, 1, 255, 256, 65535, 65536, u32::MAX, u32::MAX - 1, rng.u32()] {
            rep.evals(3);
            let checks = [("From<u32>", B::from(v).int(), v as u128), ("From<u16>", B::from(v as u16).int(), (v as u16) as u128), ("From<u8>", B::from(v as u8).int(), (v as u8) as u128)];
            for (what, got, want) in checks {
                if got != want {
                    rep.violation(&format!("integer-conversion-wrong|{name}|{what}"), json!({"v": v, "got": got.to_string()}));
                }
            }
        }
        // from_bytes_with_padding on every shorter length
        for len in 0..nb {
            let v = if len == 0 { 0 } else { rng.u128() & ((1u128 << (8 * len)) - 1) };
            let bytes = le_bytes(v, len);
            rep.evals(1);
            match guard(|| B::from_bytes_with_padding(&bytes)) {
                Ok(e) => {
                    if e.int() != v {
                        rep.violation(&format!("integer-conversion-wrong|{name}|from_bytes_with_padding"), json!({"bytes": hex(&bytes), "got": e.int().to_string()}));
                    }
                },
                Err(pn) => rep.violation(&format!("decoder-{}|{name}|from_bytes_with_padding", pn.sig()), json!({"bytes": hex(&bytes)})),
            }
        }
        // bytes_as_elements: bad length and bad alignment are errors; good input is the identity
        let storage: Vec<u128> = vec![rng.below128(p); 5];
        let raw: &[u8] = unsafe { core::slice::from_raw_parts(storage.as_ptr() as *const u8, 80) };
        rep.evals(3);
        if unsafe { B::bytes_as_elements(&raw[..nb + 1]) }.is_ok() {
            rep.violation(&format!("bytes_as_elements-accepts-bad-length|{name}"), json!({"len": nb + 1}));
        }
        if unsafe { B::bytes_as_elements(&raw[1..nb + 1]) }.is_ok() {
            rep.violation(&format!("bytes_as_elements-accepts-misaligned|{name}"), json!({"offset": 1}));
        }
        match unsafe { B::bytes_as_elements(&raw[..2 * nb]) } {
            Ok(es) => {
                if B::elements_as_bytes(es) != &raw[..2 * nb] {
                    rep.violation(&format!("bytes_as_elements-not-identity|{name}"), json!({}));
                }
            },
            Err(_) => rep.violation(&format!("bytes_as_elements-rejects-aligned|{name}"), json!({})),
        }
    }
}

/// reverse conversions that exist only on concrete types
fn reverse_conversions(rep: &mut Report, seed: u64) {
    let mut rng = Rng::for_case(seed, 1190, 0);
    for _ in 0..2000 {
        let (e, v) = vwf::gen_base::<f64m::BaseElement>(&mut rng);
        rep.evals(6);
        if u64::from(e) as u128 != v || u128::from(e) != v {
            rep.violation("integer-conversion-wrong|f64|From<BaseElement> for u64/u128", json!({"v": v.to_string()}));
        }
        let c8: Result<u8, _> = e.try_into();
        let c16: Result<u16, _> = e.try_into();
        let c32: Result<u32, _> = e.try_into();
        let cb: Result<bool, _> = e.try_into();
        if c8.ok().map(|x| x as u128) != (v <= u8::MAX as u128).then_some(v)
            || c16.ok().map(|x| x as u128) != (v <= u16::MAX as u128).then_some(v)
            || c32.ok().map(|x| x as u128) != (v <= u32::MAX as u128).then_some(v)
            || cb.ok().map(|x| x as u128) != (v <= 1).then_some(v)
        {
            rep.violation("integer-conversion-wrong|f64|TryFrom<BaseElement> for u8/u16/u32/bool", json!({"v": v.to_string()}));
        }
        let (e, v) = vwf::gen_base::<f62::BaseElement>(&mut rng);
        if u64::from(e) as u128 != v || u128::from(e) != v {
            rep.violation("integer-conversion-wrong|f62|From<BaseElement> for u64/u128", json!({"v": v.to_string(), "raw": format!("{:x}", e.raw())}));
        }
        // encodings of non-canonical representations are still the canonical value
        let enc = e.to_bytes();
        if enc != le_bytes(v, 8) {
            rep.violation("encoding-not-canonical-le|f62^1", json!({"raw": format!("{:x}", e.raw()), "value": v.to_string(), "encoded": hex(&enc)}));
        }
        // constructors with silent reduction (documented for f64 and f128; f62::new takes any u64)
        let x = rng.u64();
        if f64m::BaseElement::new(x).as_int() as u128 != x as u128 % refarith::P64 {
            rep.violation("constructor-wrong|f64|new", json!({"x": x}));
        }
        let x128 = rng.u128();
        if f128::BaseElement::new(x128).as_int() != x128 % refarith::P128 {
            rep.violation("constructor-wrong|f128|new", json!({"x": x128.to_string()}));
        }
        let x62 = match rng.below(4) { 0 => x, 1 => x >> 1, 2 => refarith::P62 as u64 + (x >> 40), _ => x >> 2 };
        if f62::BaseElement::new(x62).as_int() as u128 != x62 as u128 % refarith::P62 {
            rep.violation("constructor-wrong|f62|new", json!({"x": x62}));
        }
        let _ = addm(0, 0, 3);
    }
}

pub fn run(args: &Args) {
    let mut rep = Report::new("C11", "c11",
        "constants of the 3 fields by executed oracles (Miller-Rabin, trial division, generator order against the verified factorisation of p-1, EVERY root-of-unity order, extension polynomial = documented and root-free, Frobenius = p-th power); decoders on values {0,1,p-1,p,p+1,2p-1,2p,MAX,...} and random, in every coefficient position, all byte-level and integer decoders");
    refarith::self_test();
    let seed = args.seed();
    let n = args.budget(40, 2000);
    constants::<f62::BaseElement>(&mut rep);
    constants::<f64m::BaseElement>(&mut rep);
    constants::<f128::BaseElement>(&mut rep);
    extension_constants::<QuadExtension<f62::BaseElement>>(&mut rep);
    extension_constants::<CubeExtension<f62::BaseElement>>(&mut rep);
    extension_constants::<QuadExtension<f64m::BaseElement>>(&mut rep);
    extension_constants::<CubeExtension<f64m::BaseElement>>(&mut rep);
    extension_constants::<QuadExtension<f128::BaseElement>>(&mut rep);
    frobenius::<QuadExtension<f62::BaseElement>>(&mut rep, seed, n * 5);
    frobenius::<CubeExtension<f62::BaseElement>>(&mut rep, seed, n * 5);
    frobenius::<QuadExtension<f64m::BaseElement>>(&mut rep, seed, n * 5);
    frobenius::<CubeExtension<f64m::BaseElement>>(&mut rep, seed, n * 5);
    frobenius::<QuadExtension<f128::BaseElement>>(&mut rep, seed, n);
    decoders_for::<f62::BaseElement>(&mut rep, seed, n);
    decoders_for::<QuadExtension<f62::BaseElement>>(&mut rep, seed, n);
    decoders_for::<CubeExtension<f62::BaseElement>>(&mut rep, seed, n);
    decoders_for::<f64m::BaseElement>(&mut rep, seed, n);
    decoders_for::<QuadExtension<f64m::BaseElement>>(&mut rep, seed, n);
    decoders_for::<CubeExtension<f64m::BaseElement>>(&mut rep, seed, n);
    decoders_for::<f128::BaseElement>(&mut rep, seed, n);
    decoders_for::<QuadExtension<f128::BaseElement>>(&mut rep, seed, n);
    ints_for::<f62::BaseElement>(&mut rep, seed, n);
    ints_for::<f64m::BaseElement>(&mut rep, seed, n);
    ints_for::<f128::BaseElement>(&mut rep, seed, n);
    reverse_conversions(&mut rep, seed);
    rep.extra.insert("root_orders_exhaustive".into(), json!(true));
    rep.finish(&args.out());
}
