//! C15: BLAKE3 / SHA3 hashers equal the primitive applied to the documented byte layout.
use sha3::Digest as _;
use vcommon::{guard, hex, json, Args, Report, Rng};
use vwf::{BaseFut, Fut};
use winter_crypto::hashers::{Blake3_192, Blake3_256, Sha3_256};
use winter_crypto::{Digest, ElementHasher};
use winter_math::fields::{f128, f62, f64 as f64m, CubeExtension, QuadExtension};
use winter_math::FieldElement;
use winter_utils::Deserializable;

/// a byte-oriented hasher under test with its primitive
trait ByteH: ElementHasher {
    const N: usize;
    const NAME: &'static str;
    fn prim(data: &[u8]) -> [u8; 32];
    fn mk(bytes: &[u8]) -> Self::Digest {
        Self::Digest::read_from_bytes(bytes).expect("digest bytes")
    }
}

macro_rules! impl_byteh {
    ($h:ident, $n:expr, $name:expr, $prim:expr) => {
        impl<B: BaseFut> ByteH for $h<B> {
            const N: usize = $n;
            const NAME: &'static str = $name;
            fn prim(data: &[u8]) -> [u8; 32] {
                $prim(data)
            }
        }
    };
}
fn blake(data: &[u8]) -> [u8; 32] {
    *blake3::hash(data).as_bytes()
}
fn sha(data: &[u8]) -> [u8; 32] {
    sha3::Sha3_256::digest(data).into()
}
impl_byteh!(Blake3_256, 32, "Blake3_256", blake);
impl_byteh!(Blake3_192, 24, "Blake3_192", blake);
impl_byteh!(Sha3_256, 32, "Sha3_256", sha);

fn expect<H: ByteH>(data: &[u8]) -> [u8; 32] {
    let mut e = H::prim(data);
    for b in e.iter_mut().skip(H::N) {
        *b = 0;
    }
    e
}

fn cmp<H: ByteH>(rep: &mut Report, what: &str, got: Result<H::Digest, vcommon::PanicInfo>, layout: &[u8], detail: vcommon::Value) {
    rep.evals(1);
    rep.count(&format!("op:{what}"));
    match got {
        Err(p) => rep.violation(&format!("{}|{}|{}", p.sig(), H::NAME, what), detail),
        Ok(d) => {
            let want = expect::<H>(layout);
            if d.as_bytes() != want {
                rep.violation(&format!("digest-differs-from-primitive-on-documented-layout|{}|{}", H::NAME, what),
                    json!({"detail": detail, "layout_len": layout.len(), "layout_head": hex(&layout[..layout.len().min(48)]), "got": hex(&d.as_bytes()), "expected": hex(&want)}));
            }
        },
    }
}

fn bytes_cases<H: ByteH>(rep: &mut Report, seed: u64, n: u64) {
    let mut rng = Rng::for_case(seed, 1500, H::N as u64 ^ vcommon::fnv(H::NAME.as_bytes()));
    let lens: Vec<usize> = (0..=300).chain([1023, 1024, 1025, 2047, 2048, 2049, 4096, 65535, 65536, 65537]).collect();
    for (i, len) in lens.iter().enumerate() {
        if (i as u64) >= n {
            break;
        }
        let data = rng.bytes(*len);
        rep.distinct_key(&[H::NAME.as_bytes(), b"hash", &(*len as u64).to_le_bytes()].concat());
        cmp::<H>(rep, "hash", guard(|| H::hash(&data)), &data, json!({"len": len}));
    }
    for k in 0..n.min(400) {
        // digest lists
        let cnt = match k % 8 { 0 => 0, 1 => 1, 2 => 2, 3 => 3, _ => rng.usize(41) };
        let raw: Vec<Vec<u8>> = (0..cnt).map(|_| if rng.chance(1, 6) { vec![0u8; H::N] } else { rng.bytes(H::N) }).collect();
        let ds: Vec<H::Digest> = raw.iter().map(|r| H::mk(r)).collect();
        let layout: Vec<u8> = raw.concat();
        rep.distinct_key(&[H::NAME.as_bytes(), b"mm", &layout[..layout.len().min(64)], &(cnt as u64).to_le_bytes()].concat());
        cmp::<H>(rep, "merge_many", guard(|| H::merge_many(&ds)), &layout, json!({"digests": cnt}));
        if cnt >= 2 {
            let two = [ds[0], ds[1]];
            cmp::<H>(rep, "merge", guard(|| H::merge(&two)), &layout[..2 * H::N], json!({}));
        }
        // seed || little-endian integer
        let seedb = rng.bytes(H::N);
        let v: u64 = match k % 9 {
            0 => 0,
            1 => 1,
            2 => u32::MAX as u64,
            3 => 1 << 32,
            4 => u64::MAX,
            5 => (1 << 32) + rng.below(1 << 20),
            6 => 0xff00_0000_0000_0000 | rng.below(1 << 20),
            _ => rng.u64(),
        };
        let layout = [seedb.as_slice(), &v.to_le_bytes()].concat();
        cmp::<H>(rep, "merge_with_int", guard(|| H::merge_with_int(H::mk(&seedb), v)), &layout, json!({"value": v}));
    }
}

fn elem_cases<H, E>(rep: &mut Report, seed: u64, n: u64)
where
    H: ByteH<BaseField = <E as Fut>::B>,
    E: Fut + FieldElement<BaseField = <E as Fut>::B>,
{
    let nb = <E as Fut>::B::ELEMENT_BYTES;
    let mut rng = Rng::for_case(seed, 1510 + E::DEG as u64, vcommon::fnv(H::NAME.as_bytes()) ^ E::B::SPEC.p as u64);
    let lens: Vec<usize> = (0..=40).chain([41, 42, 43, 63, 64, 65, 127, 128, 129, 130, 200, 255, 256, 257, 1000, 1025]).collect();
    for (i, len) in lens.iter().enumerate() {
        if (i as u64) >= n {
            break;
        }
        let (es, vs): (Vec<E>, Vec<vcommon::refarith::Ext>) = (0..*len).map(|_| E::gen(&mut rng)).unzip();
        // canonical little-endian encoding assembled by the monitor from the reference values
        let mut layout = Vec::with_capacity(len * nb * E::DEG);
        for v in &vs {
            for c in &v[..E::DEG] {
                layout.extend_from_slice(&c.to_le_bytes()[..nb]);
            }
        }
        rep.distinct_key(&[H::NAME.as_bytes(), E::name().as_bytes(), &(*len as u64).to_le_bytes()].concat());
        let d = json!({"elements": len, "field": E::name()});
        cmp::<H>(rep, &format!("hash_elements<{}>", E::name()), guard(|| H::hash_elements(&es)), &layout, d);
        // same values through freshly built (canonical-representation) elements must hash equally
        let fresh: Vec<E> = vs.iter().map(|v| E::from_ref(*v)).collect();
        rep.evals(1);
        if let (Ok(a), Ok(b)) = (guard(|| H::hash_elements(&es)), guard(|| H::hash_elements(&fresh))) {
            if a != b {
                rep.violation(&format!("hash_elements-depends-on-representation|{}|{}", H::NAME, E::name()), json!({"elements": len}));
            }
        }
    }
}

macro_rules! all_for_field {
    ($b:ty, $rep:expr, $seed:expr, $n:expr) => {{
        bytes_cases::<Blake3_256<$b>>($rep, $seed, $n);
        bytes_cases::<Blake3_192<$b>>($rep, $seed, $n);
        bytes_cases::<Sha3_256<$b>>($rep, $seed, $n);
        elem_cases::<Blake3_256<$b>, $b>($rep, $seed, $n);
        elem_cases::<Blake3_192<$b>, $b>($rep, $seed, $n);
        elem_cases::<Sha3_256<$b>, $b>($rep, $seed, $n);
        elem_cases::<Blake3_256<$b>, QuadExtension<$b>>($rep, $seed, $n);
        elem_cases::<Blake3_192<$b>, QuadExtension<$b>>($rep, $seed, $n);
        elem_cases::<Sha3_256<$b>, QuadExtension<$b>>($rep, $seed, $n);
    }};
}

pub fn run(args: &Args) {
    let mut rep = Report::new("C15", "c15",
        "Blake3_256, Blake3_192, Sha3_256 over f62/f64/f128: hash on byte strings of every length 0..300 and around 1 KiB/2 KiB/64 KiB, merge, merge_many on 0..40 digests, merge_with_int at limb boundaries, hash_elements on 0..40 and around 42/64/128/256/1000 elements of base, quadratic and cubic types with non-canonical representations; expected value = blake3/sha3 crate applied to the layout assembled from canonical values; distinct = (hasher, op, size)");
    // --len bounds the byte / element counts (the Miri stage uses a small bound)
    let n = args.u64("len", 400);
    let rounds = args.budget(1, 60);
    for round in 0..rounds {
    let seed = args.seed().wrapping_add(round * 7919);
    all_for_field!(f64m::BaseElement, &mut rep, seed, n);
    all_for_field!(f62::BaseElement, &mut rep, seed, n);
    all_for_field!(f128::BaseElement, &mut rep, seed, n);
    elem_cases::<Blake3_256<f64m::BaseElement>, CubeExtension<f64m::BaseElement>>(&mut rep, seed, n);
    elem_cases::<Blake3_192<f64m::BaseElement>, CubeExtension<f64m::BaseElement>>(&mut rep, seed, n);
    elem_cases::<Sha3_256<f64m::BaseElement>, CubeExtension<f64m::BaseElement>>(&mut rep, seed, n);
    elem_cases::<Blake3_256<f62::BaseElement>, CubeExtension<f62::BaseElement>>(&mut rep, seed, n);
    elem_cases::<Sha3_256<f62::BaseElement>, CubeExtension<f62::BaseElement>>(&mut rep, seed, n);
    }
    rep.sample(json!({"hasher": "Blake3_192<f64>", "op": "merge_with_int", "layout": "24-byte seed || 8-byte LE integer, digest = first 24 bytes of blake3"}));
    rep.sample(json!({"hasher": "Sha3_256<f62>", "op": "hash_elements<f62^3>", "layout": "3 x 8-byte canonical LE per element"}));
    rep.finish(&args.out());
}
