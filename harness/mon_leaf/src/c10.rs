//! C10: field and extension arithmetic against the reference, on representation-biased
//! operands and on chains of operations; equality vs canonical equality; termination of inv.
use std::time::Duration;

use vcommon::refarith::{Ext, ExtSpec};
use vcommon::{guard, json, Args, Report, Rng, Worker};
use vwf::timed::TimedExec;
use vwf::{BaseFut, Fut};
use winter_math::fields::{f128, f62, f64 as f64m, CubeExtension, QuadExtension};


const OPS: [&str; 19] = [
    "add", "sub", "neg", "double", "square", "cube", "mul", "mul_base", "div", "inv", "exp", "exp_vartime",
    "conjugate", "frobenius", "add_assign", "sub_assign", "mul_assign", "div_assign", "sum_of_negation",
];

fn fmt_ext(deg: usize, v: Ext) -> String {
    format!("{:?}", &v[..deg])
}

fn exponent<E: Fut>(rng: &mut Rng) -> u128 {
    let p = E::B::SPEC.p;
    let max: u128 = if p >> 64 == 0 { u64::MAX as u128 } else { u128::MAX };
    let e = match rng.below(12) {
        0 => 0,
        1 => 1,
        2 => 2,
        3 => 3,
        4 => p - 2,
        5 => p - 1,
        6 => p,
        7 => p.wrapping_add(1),
        8 => 1u128 << 63,
        9 => max,
        10 => rng.below(70) as u128,
        _ => rng.u128(),
    };
    e & max
}

struct Chain<'a, E: Fut> {
    rep: &'a mut Report,
    es: ExtSpec,
    pool: Vec<(E, Ext)>,
    fname: String,
    case: u64,
    seed: u64,
}

impl<E: Fut> Chain<'_, E> {
    fn detail(&self, op: &str, a: &(E, Ext), b: Option<&(E, Ext)>, extra: String, got: Option<Ext>, want: Ext) -> vcommon::Value {
        json!({
            "field": self.fname, "op": op, "seed": self.seed, "case": self.case,
            "a": fmt_ext(E::DEG, a.1), "a_raw": format!("{:x?}", &a.0.raws()[..E::DEG]),
            "b": b.map(|b| fmt_ext(E::DEG, b.1)), "b_raw": b.map(|b| format!("{:x?}", &b.0.raws()[..E::DEG])),
            "arg": extra,
            "got": got.map(|g| fmt_ext(E::DEG, g)), "reference": fmt_ext(E::DEG, want),
        })
    }

    /// checks one result against the reference and the `==` clauses; returns false to end chain
    fn check(&mut self, op: &str, a: &(E, Ext), b: Option<&(E, Ext)>, extra: String, got: E, want: Ext) {
        self.rep.evals(1);
        self.rep.count(&format!("op:{op}"));
        let gv = got.to_ref();
        if gv != want {
            let d = self.detail(op, a, b, extra.clone(), Some(gv), want);
            self.rep.violation(&format!("wrong-result|{}|{}", self.fname, op), d);
        }
        // representation range: diagnostic only
        let raws = got.raws();
        if raws[..E::DEG].iter().any(|r| *r >= E::B::REP_LIMIT) {
            self.rep.count(&format!("diag:representation-out-of-documented-range:{}:{}", self.fname, op));
        }
        // equality must follow canonical values: compare with a freshly built element of the
        // reference value, and with a neighbour value
        let fresh = E::from_ref(want);
        if gv == want && got != fresh {
            let d = self.detail(op, a, b, extra.clone(), Some(gv), want);
            self.rep.violation(&format!("eq-false-for-equal-values|{}|after-{}", self.fname, op), d);
        }
        let mut other = want;
        other[0] = if other[0] + 1 == self.es.p { 0 } else { other[0] + 1 };
        if gv == want && got == E::from_ref(other) {
            let d = self.detail(op, a, b, extra, Some(gv), want);
            self.rep.violation(&format!("eq-true-for-different-values|{}|after-{}", self.fname, op), d);
        }
        self.pool.push((got, want));
        if self.pool.len() > 12 {
            self.pool.remove(0);
        }
    }

    fn step(&mut self, rng: &mut Rng, exec: &mut TimedExec) -> bool {
        let es = self.es;
        let a = self.pool[rng.usize(self.pool.len())];
        let b = self.pool[rng.usize(self.pool.len())];
        let op = OPS[rng.usize(OPS.len())];
        let r: Result<(E, Ext, Option<(E, Ext)>, String), vcommon::PanicInfo> = match op {
            "add" => guard(|| (a.0 + b.0, es.add(a.1, b.1), Some(b), String::new())),
            "sub" => guard(|| (a.0 - b.0, es.sub(a.1, b.1), Some(b), String::new())),
            "neg" => guard(|| (-a.0, es.neg(a.1), None, String::new())),
            "double" => guard(|| (a.0.double(), es.add(a.1, a.1), None, String::new())),
            "square" => guard(|| (a.0.square(), es.mul(a.1, a.1), None, String::new())),
            "cube" => guard(|| (a.0.cube(), es.mul(es.mul(a.1, a.1), a.1), None, String::new())),
            "mul" => guard(|| (a.0 * b.0, es.mul(a.1, b.1), Some(b), String::new())),
            "mul_base" => {
                let (be, bv) = vwf::gen_base::<E::B>(rng);
                guard(|| (a.0.mulb(be), es.mul_base(a.1, bv), None, format!("base={bv}")))
            },
            "div" => {
                if b.1 == [0, 0, 0] {
                    self.rep.count("skipped:div-by-zero");
                    return true;
                }
                let (x, y) = (a.0, b.0);
                match exec.run(move || x / y, Duration::from_secs(3)) {
                    None => {
                        let d = self.detail(op, &a, Some(&b), String::new(), None, es.mul(a.1, es.inv(b.1)));
                        self.rep.violation(&format!("non-termination|{}|div", self.fname), d);
                        return false;
                    },
                    Some(r) => r.map(|v| (v, es.mul(a.1, es.inv(b.1)), Some(b), String::new())),
                }
            },
            "div_assign" => {
                if b.1 == [0, 0, 0] {
                    return true;
                }
                let (x, y) = (a.0, b.0);
                match exec.run(move || { let mut z = x; z /= y; z }, Duration::from_secs(3)) {
                    None => {
                        let d = self.detail(op, &a, Some(&b), String::new(), None, es.mul(a.1, es.inv(b.1)));
                        self.rep.violation(&format!("non-termination|{}|div", self.fname), d);
                        return false;
                    },
                    Some(r) => r.map(|v| (v, es.mul(a.1, es.inv(b.1)), Some(b), String::new())),
                }
            },
            "inv" => {
                let x = a.0;
                match exec.run(move || x.inv(), Duration::from_secs(3)) {
                    None => {
                        let d = self.detail(op, &a, None, String::new(), None, es.inv(a.1));
                        self.rep.violation(&format!("non-termination|{}|inv", self.fname), d);
                        return false;
                    },
                    Some(r) => r.map(|v| (v, es.inv(a.1), None, String::new())),
                }
            },
            "exp" => {
                let e = exponent::<E>(rng);
                guard(|| (a.0.exp(E::pint(e)), es.pow(a.1, e), None, format!("e={e}")))
            },
            "exp_vartime" => {
                let e = exponent::<E>(rng);
                guard(|| (a.0.exp_vartime(E::pint(e)), es.pow(a.1, e), None, format!("e={e}")))
            },
            "conjugate" => guard(|| (a.0.conjugate(), es.frobenius(a.1), None, String::new())),
            "frobenius" => guard(|| (a.0.frob(), es.frobenius(a.1), None, String::new())),
            "add_assign" => guard(|| { let mut z = a.0; z += b.0; (z, es.add(a.1, b.1), Some(b), String::new()) }),
            "sub_assign" => guard(|| { let mut z = a.0; z -= b.0; (z, es.sub(a.1, b.1), Some(b), String::new()) }),
            "mul_assign" => guard(|| { let mut z = a.0; z *= b.0; (z, es.mul(a.1, b.1), Some(b), String::new()) }),
            // x + (-x): the classic route to a non-canonical zero
            "sum_of_negation" => guard(|| (a.0 + (-a.0), [0, 0, 0], None, String::new())),
            _ => unreachable!(),
        };
        match r {
            Ok((got, want, bb, extra)) => {
                let before = self.rep.num_violation_total();
                self.check(op, &a, bb.as_ref(), extra, got, want);
                // a wrong value would poison everything computed from it: end the chain so that
                // only the first failing operation is reported
                self.rep.num_violation_total() == before
            },
            Err(p) => {
                let d = json!({"field": self.fname, "op": op, "a": fmt_ext(E::DEG, a.1), "b": fmt_ext(E::DEG, b.1), "case": self.case, "seed": self.seed});
                self.rep.violation(&format!("{}|{}|{}", p.sig(), self.fname, op), d);
                false
            },
        }
    }
}

fn run_chain<E: Fut>(rep: &mut Report, seed: u64, case: u64, exec: &mut TimedExec) {
    let mut rng = Rng::for_case(seed, 1000 + E::DEG as u64, case);
    let fname = E::name();
    let mut pool = vec![];
    for _ in 0..3 {
        pool.push(E::gen(&mut rng));
    }
    // operand self-check: the element's canonical value must be the reference value
    for (e, v) in &pool {
        if e.to_ref() != *v {
            rep.violation(&format!("operand-value-mismatch|{fname}"),
                json!({"field": fname, "raw": format!("{:x?}", &e.raws()[..E::DEG]), "as_int": fmt_ext(E::DEG, e.to_ref()), "reference": fmt_ext(E::DEG, *v)}));
        }
    }
    let key = format!("{}{:?}", fname, pool.iter().map(|p| p.0.raws()).collect::<Vec<_>>());
    let nontrivial = pool.iter().any(|p| p.1 != [0, 0, 0]);
    rep.distinct_key(key.as_bytes());
    let _ = nontrivial;
    let len = 4 + rng.usize(13);
    let mut ch = Chain::<E> { rep, es: E::spec(), pool, fname, case, seed };
    for _ in 0..len {
        if !ch.step(&mut rng, exec) {
            break;
        }
    }
}

/// f64-only operations: mul_small, exp7
fn f64_specific(rep: &mut Report, seed: u64, case: u64) {
    let mut rng = Rng::for_case(seed, 1064, case);
    let p = vcommon::refarith::P64;
    for _ in 0..8 {
        let (a, av) = vwf::gen_base::<f64m::BaseElement>(&mut rng);
        let k: u32 = match rng.below(5) {
            0 => 0,
            1 => 1,
            2 => u32::MAX,
            3 => u32::MAX - rng.below(4) as u32,
            _ => rng.u32(),
        };
        rep.evals(2);
        let got = a.mul_small(k);
        let want = vcommon::refarith::mulm(av, k as u128, p);
        if got.as_int() as u128 != want {
            rep.violation("wrong-result|f64^1|mul_small", json!({"a": av.to_string(), "a_raw": format!("{:x}", a.inner()), "k": k, "got": got.as_int(), "reference": want.to_string()}));
        }
        if got.inner() as u128 >= p {
            rep.count("diag:representation-out-of-documented-range:f64^1:mul_small");
        }
        let fresh = f64m::BaseElement::try_from(want).unwrap();
        if got.as_int() as u128 == want && got != fresh {
            rep.violation("eq-false-for-equal-values|f64^1|after-mul_small",
                json!({"a": av.to_string(), "a_raw": format!("{:x}", a.inner()), "k": k, "got_raw": format!("{:x}", got.inner()), "value": want.to_string()}));
        }
        // use of the result afterwards: (a*k) - (a*k as computed by mul) must be zero
        let via_mul = a * f64m::BaseElement::from(k);
        if (got - via_mul).as_int() != 0 || -(got) != -(via_mul) {
            rep.violation("wrong-result|f64^1|op-after-mul_small",
                json!({"a": av.to_string(), "k": k, "diff": (got - via_mul).as_int(), "neg_got": (-(got)).as_int(), "neg_ref": (-(via_mul)).as_int()}));
        }
        let got7 = a.exp7();
        let want7 = vcommon::refarith::powm(av, 7, p);
        if got7.as_int() as u128 != want7 {
            rep.violation("wrong-result|f64^1|exp7", json!({"a": av.to_string(), "got": got7.as_int(), "reference": want7.to_string()}));
        }
        rep.count("op:mul_small");
        rep.count("op:exp7");
    }
}

pub fn chains(args: &Args) {
    let mut rep = Report::new("C10", "c10_chains",
        "chains of 4..16 operations on representation-biased operands, 8 element types; evaluation = one operation compared with the reference; distinct = distinct starting operand triples (by raw representation)");
    let mut w = Worker::new(args, args.budget(40_000, 1_200_000));
    let mut exec = TimedExec::new();
    let seed = args.seed();
    for case in w.from..w.to {
        if !w.start(case, &mut rep) {
            continue;
        }
        match case % 9 {
            0 => run_chain::<f64m::BaseElement>(&mut rep, seed, case, &mut exec),
            1 => run_chain::<QuadExtension<f64m::BaseElement>>(&mut rep, seed, case, &mut exec),
            2 => run_chain::<CubeExtension<f64m::BaseElement>>(&mut rep, seed, case, &mut exec),
            3 => run_chain::<f62::BaseElement>(&mut rep, seed, case, &mut exec),
            4 => run_chain::<QuadExtension<f62::BaseElement>>(&mut rep, seed, case, &mut exec),
            5 => run_chain::<CubeExtension<f62::BaseElement>>(&mut rep, seed, case, &mut exec),
            6 => run_chain::<f128::BaseElement>(&mut rep, seed, case, &mut exec),
            7 => run_chain::<QuadExtension<f128::BaseElement>>(&mut rep, seed, case, &mut exec),
            _ => f64_specific(&mut rep, seed, case),
        }
        if case % 10_007 == 0 {
            let tys = ["f64", "f64^2", "f64^3", "f62", "f62^2", "f62^3", "f128", "f128^2", "f64-specific"];
            rep.sample(json!({"case": case, "note": "chain of 4..16 ops", "element_type": tys[(case % 9) as usize]}));
        }
    }
    rep.finish(&args.out());
}

/// exhaustive lattice around every representation boundary: all pairs for binary ops
fn lattice_field<B: BaseFut + Fut<B = B>>(rep: &mut Report, radius: i128, exec: &mut TimedExec) {
    let es = <B as Fut>::spec();
    let p = es.p;
    let fname = <B as Fut>::name();
    let mut vals: Vec<(B, u128)> = vec![];
    for b in B::rep_boundaries() {
        for d in -radius..=radius {
            let raw = vwf::offset_mod(b, d, B::REP_LIMIT);
            vals.push(B::from_raw(raw));
        }
    }
    rep.count_n(&format!("lattice_points:{fname}"), vals.len() as u64);
    for (a, av) in &vals {
        if a.int() != *av {
            rep.violation(&format!("operand-value-mismatch|{fname}"), json!({"raw": format!("{:x}", a.raw()), "as_int": a.int().to_string(), "reference": av.to_string()}));
        }
        // unary
        let x = *a;
        let inv = match exec.run(move || x.inv(), Duration::from_secs(3)) {
            None => {
                rep.violation(&format!("non-termination|{fname}|inv"), json!({"field": fname, "a_raw": format!("{:x}", a.raw()), "a": av.to_string()}));
                None
            },
            Some(Err(pn)) => {
                rep.violation(&format!("{}|{}|inv", pn.sig(), fname), json!({"a": av.to_string()}));
                None
            },
            Some(Ok(v)) => Some(v),
        };
        let unary: Vec<(&str, Option<B>, u128)> = vec![
            ("neg", Some(-*a), vcommon::refarith::negm(*av, p)),
            ("double", Some(a.double()), vcommon::refarith::addm(*av, *av, p)),
            ("square", Some(a.square()), vcommon::refarith::mulm(*av, *av, p)),
            ("inv", inv, vcommon::refarith::invm(*av, p)),
            ("sum_of_negation", Some(*a + (-*a)), 0),
        ];
        for (op, got, want) in unary {
            let Some(got) = got else { continue };
            rep.evals(1);
            if got.int() != want {
                rep.violation(&format!("wrong-result|{fname}|{op}"), json!({"field": fname, "op": op, "a": av.to_string(), "a_raw": format!("{:x}", a.raw()), "got": got.int().to_string(), "reference": want.to_string()}));
            }
            if got.raw() >= B::REP_LIMIT {
                rep.count(&format!("diag:representation-out-of-documented-range:{fname}:{op}"));
            }
            if got.int() == want && got != B::from_int(want) {
                rep.violation(&format!("eq-false-for-equal-values|{fname}|after-{op}"), json!({"field": fname, "op": op, "a": av.to_string(), "a_raw": format!("{:x}", a.raw()), "got_raw": format!("{:x}", got.raw())}));
            }
            // the result used as an operand again
            let back = match op {
                "neg" => Some((-got, *av)),
                "double" => Some((got - *a, *av)),
                _ => None,
            };
            if let Some((g2, w2)) = back {
                if g2.int() != w2 || g2 != B::from_int(w2) {
                    rep.violation(&format!("wrong-result|{fname}|op-after-{op}"), json!({"field": fname, "a": av.to_string(), "a_raw": format!("{:x}", a.raw()), "got": g2.int().to_string(), "got_raw": format!("{:x}", g2.raw()), "reference": w2.to_string()}));
                }
            }
        }
    }
    for (a, av) in &vals {
        for (b, bv) in &vals {
            rep.evals(4);
            let checks = [
                ("add", *a + *b, vcommon::refarith::addm(*av, *bv, p)),
                ("sub", *a - *b, vcommon::refarith::subm(*av, *bv, p)),
                ("mul", *a * *b, vcommon::refarith::mulm(*av, *bv, p)),
            ];
            for (op, got, want) in checks {
                if got.int() != want {
                    rep.violation(&format!("wrong-result|{fname}|{op}"), json!({"field": fname, "op": op, "a": av.to_string(), "b": bv.to_string(), "a_raw": format!("{:x}", a.raw()), "b_raw": format!("{:x}", b.raw()), "got": got.int().to_string(), "reference": want.to_string()}));
                }
                if got.raw() >= B::REP_LIMIT {
                    rep.count(&format!("diag:representation-out-of-documented-range:{fname}:{op}"));
                }
            }
            if (*a == *b) != (av == bv) {
                rep.violation(&format!("eq-disagrees-with-canonical-equality|{fname}"), json!({"field": fname, "a": av.to_string(), "b": bv.to_string(), "a_raw": format!("{:x}", a.raw()), "b_raw": format!("{:x}", b.raw()), "eq": *a == *b}));
            }
        }
    }
    rep.distinct_key(fname.as_bytes());
}

pub fn lattice(args: &Args) {
    let mut rep = Report::new("C10", "c10_lattice",
        "every pair of internal representations within +-r of each representation boundary (0, 2^32, 2^63, M/2, M, 2M, ...) for add/sub/mul/==, every such point for neg/double/square/inv; exhaustive inside the band");
    let radius = args.budget(6, 40) as i128;
    let mut exec = TimedExec::new();
    lattice_field::<f64m::BaseElement>(&mut rep, radius, &mut exec);
    lattice_field::<f62::BaseElement>(&mut rep, radius, &mut exec);
    lattice_field::<f128::BaseElement>(&mut rep, radius, &mut exec);
    rep.extra.insert("radius".into(), json!(radius));
    rep.sample(json!({"field": "f64", "boundary_raw": "0x7fffffff80000000 (M/2)", "ops": "all pairs within radius"}));
    rep.finish(&args.out());
}
