//! C21: assertion step sets and overlap detection are exact — exhaustive in a bounded domain.
//! For each power-of-two trace length n up to the bound, EVERY assertion valid for n over two
//! columns (single at every step; periodic for every stride and first step; sequence for every
//! stride/first step with n/stride values) is built through the public constructors; its cell
//! set is written down explicitly from the documentation and compared with `apply`,
//! `get_num_steps`, `validate_trace_length` (all lengths 1..4n) and, for every ordered pair,
//! `overlaps_with` <=> the sets intersect. `BoundaryConstraints::new` (prepare_assertions) must
//! panic exactly for lists containing an overlapping pair.
use vcommon::{guard, json, Args, Report, Rng};
use winter_air::{
    AirContext, Assertion, BatchingMethod, BoundaryConstraints, FieldExtension, ProofOptions, TraceInfo, TransitionConstraintDegree,
};
use winter_math::fields::f64::BaseElement as B;

#[derive(Clone, Debug)]
struct Spec {
    kind: u8, // 0 single, 1 periodic, 2 sequence
    column: usize,
    first: usize,
    stride: usize,
    nvals: usize,
}

impl Spec {
    fn build(&self, tag: u64) -> Assertion<B> {
        match self.kind {
            0 => Assertion::single(self.column, self.first, B::new(tag)),
            1 => Assertion::periodic(self.column, self.first, self.stride, B::new(tag)),
            _ => Assertion::sequence(self.column, self.first, self.stride, (0..self.nvals).map(|i| B::new(tag * 100_000 + i as u64)).collect()),
        }
    }
    /// documented cell set for trace length n (None = not valid for n)
    fn steps(&self, n: usize) -> Option<Vec<usize>> {
        if !n.is_power_of_two() {
            return None;
        }
        match self.kind {
            0 => (self.first < n).then(|| vec![self.first]),
            1 => (self.stride <= n).then(|| (0..n / self.stride).map(|i| self.first + self.stride * i).collect()),
            _ => {
                if self.nvals == 1 {
                    // a one-value sequence is documented to be a single assertion
                    (self.first < n).then(|| vec![self.first])
                } else {
                    (self.nvals * self.stride == n).then(|| (0..self.nvals).map(|i| self.first + self.stride * i).collect())
                }
            },
        }
    }
    fn desc(&self) -> String {
        match self.kind {
            0 => format!("single(col {}, step {})", self.column, self.first),
            1 => format!("periodic(col {}, first {}, stride {})", self.column, self.first, self.stride),
            _ => format!("sequence(col {}, first {}, stride {}, {} values)", self.column, self.first, self.stride, self.nvals),
        }
    }
}

/// every assertion shape valid for trace length n on `cols` columns
fn universe(n: usize, cols: usize) -> Vec<Spec> {
    let mut v = vec![];
    for column in 0..cols {
        for first in 0..n {
            v.push(Spec { kind: 0, column, first, stride: 0, nvals: 1 });
        }
        let mut stride = 2;
        while stride <= n {
            for first in 0..stride {
                v.push(Spec { kind: 1, column, first, stride, nvals: 1 });
                if n / stride >= 2 {
                    v.push(Spec { kind: 2, column, first, stride, nvals: n / stride });
                }
            }
            stride *= 2;
        }
    }
    v
}

fn context(n: usize, width: usize, num_assertions: usize) -> AirContext<B> {
    let options = ProofOptions::new(8, 4, 0, FieldExtension::None, 4, 7, BatchingMethod::Linear, BatchingMethod::Linear);
    AirContext::new(TraceInfo::new(width, n), vec![TransitionConstraintDegree::new(1)], num_assertions, options)
}

pub fn run(args: &Args) {
    let mut rep = Report::new("C21", "c21",
        "for n in {8,16,..,256} (thorough 1024; overflow-check build 64): every single/periodic/sequence assertion valid for n on 2 columns: apply() visits exactly the documented steps in order with the right values, get_num_steps, validate_trace_length on every length 1..4n, overlaps_with on EVERY ordered pair vs set intersection; one-value sequences; BoundaryConstraints::new panics iff a list contains an overlapping pair; evaluation = one comparison; distinct = (n, assertion)");
    let seed = args.seed();
    let maxn = args.u64("maxn", if args.thorough() { 1024 } else { 256 }) as usize;
    let mut n = 8;
    while n <= maxn {
        let uni = universe(n, 2);
        rep.count_n(&format!("assertions_n{n}"), uni.len() as u64);
        // explicit sets as bitmaps per assertion
        let sets: Vec<Vec<u64>> = uni
            .iter()
            .map(|s| {
                let mut b = vec![0u64; n.div_ceil(64)];
                for st in s.steps(n).expect("valid by construction") {
                    b[st / 64] |= 1 << (st % 64);
                }
                b
            })
            .collect();
        let built: Vec<Assertion<B>> = uni.iter().enumerate().map(|(i, s)| s.build(i as u64 + 1)).collect();
        // ---- per-assertion oracles
        for (i, s) in uni.iter().enumerate() {
            rep.distinct_key(format!("{n}/{}", s.desc()).as_bytes());
            let a = &built[i];
            let want = s.steps(n).unwrap();
            // apply
            rep.evals(1);
            let mut seen: Vec<(usize, B)> = vec![];
            match guard(|| a.apply(n, |st, v| seen.push((st, v)))) {
                Err(p) => rep.violation(&format!("{}|apply", p.sig()), json!({"n": n, "assertion": s.desc()})),
                Ok(()) => {
                    let got: Vec<usize> = seen.iter().map(|x| x.0).collect();
                    let vals_ok = seen.iter().enumerate().all(|(k, (_, v))| *v == a.values()[if s.kind == 2 { k } else { 0 }]);
                    if got != want || !vals_ok {
                        rep.violation(&format!("apply-steps-differ-from-documented-progression|kind{}", s.kind), json!({"n": n, "assertion": s.desc(), "got": got, "documented": want}));
                    }
                },
            }
            rep.evals(1);
            match guard(|| a.get_num_steps(n)) {
                Err(p) => rep.violation(&format!("{}|get_num_steps", p.sig()), json!({"n": n, "assertion": s.desc()})),
                Ok(k) if k != want.len() => rep.violation(&format!("get_num_steps-wrong|kind{}", s.kind), json!({"n": n, "assertion": s.desc(), "got": k, "documented": want.len()})),
                _ => {},
            }
            // accessors / classification
            let kind_ok = match s.kind {
                0 => a.is_single() && !a.is_periodic() && !a.is_sequence(),
                1 => a.is_periodic() && !a.is_single() && !a.is_sequence(),
                _ => a.is_sequence() && !a.is_single() && !a.is_periodic(),
            };
            if !kind_ok || a.column() != s.column || a.first_step() != s.first {
                rep.violation("assertion-classification", json!({"n": n, "assertion": s.desc()}));
            }
            // trace-length validation on every length 1..=4n
            for m in 1..=4 * n {
                rep.evals(1);
                let want_ok = s.steps(m).is_some();
                let got_ok = a.validate_trace_length(m).is_ok();
                if want_ok != got_ok {
                    rep.violation(&format!("validate_trace_length-{}|kind{}", if got_ok { "accepts-unfit-length" } else { "rejects-fit-length" }, s.kind), json!({"assertion": s.desc(), "trace_length": m}));
                    break;
                }
            }
        }
        // ---- one-value sequences behave as singles
        for first in [0usize, 1, n / 2, n - 1] {
            for stride in [2usize, n] {
                if first >= stride {
                    continue;
                }
                rep.evals(1);
                let a = Assertion::sequence(0, first, stride, vec![B::new(7)]);
                let mut got = vec![];
                let r = guard(|| {
                    a.apply(n, |st, _| got.push(st));
                    a.get_num_steps(n)
                });
                if !matches!(r, Ok(1)) || got != vec![first] {
                    rep.violation("one-value-sequence-not-single", json!({"n": n, "first": first, "stride": stride}));
                }
            }
        }
        // ---- every ordered pair
        let mut npairs = 0u64;
        let mut noverlap = 0u64;
        for i in 0..uni.len() {
            for j in 0..uni.len() {
                npairs += 1;
                let want = uni[i].column == uni[j].column && sets[i].iter().zip(&sets[j]).any(|(x, y)| *x & *y != 0);
                if want {
                    noverlap += 1;
                }
                let got = built[i].overlaps_with(&built[j]);
                if got != want {
                    rep.violation(&format!("overlaps_with-{}|kinds{}{}", if got { "false-positive" } else { "missed-overlap" }, uni[i].kind, uni[j].kind),
                        json!({"n": n, "a": uni[i].desc(), "b": uni[j].desc()}));
                }
            }
        }
        rep.evals(npairs);
        rep.count_n("ordered_pairs", npairs);
        rep.count_n("ordered_pairs_overlapping", noverlap);
        // ---- prepare_assertions through BoundaryConstraints::new
        let lists = if args.thorough() { 1500 } else { 400 };
        for case in 0..lists {
            let mut rng = Rng::for_case(seed, 2100 + n as u64, case);
            let k = 2 + rng.usize(4);
            let mut idx: Vec<usize> = (0..k).map(|_| rng.usize(uni.len())).collect();
            if rng.chance(1, 3) {
                // make an overlap likely: pick something intersecting idx[0]
                let base = idx[0];
                let cands: Vec<usize> = (0..uni.len()).filter(|&j| j != base && uni[j].column == uni[base].column && sets[j].iter().zip(&sets[base]).any(|(x, y)| *x & *y != 0)).collect();
                if !cands.is_empty() {
                    idx[1] = *rng.pick(&cands);
                }
            }
            idx.sort_unstable();
            idx.dedup();
            rng.shuffle(&mut idx);
            let want_panic = (0..idx.len()).any(|a| (0..a).any(|b| uni[idx[a]].column == uni[idx[b]].column && sets[idx[a]].iter().zip(&sets[idx[b]]).any(|(x, y)| *x & *y != 0)));
            let list: Vec<Assertion<B>> = idx.iter().map(|&i| built[i].clone()).collect();
            let ctx = context(n, 2, list.len());
            let coeffs: Vec<B> = (0..list.len()).map(|i| B::new(i as u64 + 3)).collect();
            rep.evals(1);
            rep.count(if want_panic { "assertion_lists_with_overlap" } else { "assertion_lists_without_overlap" });
            let r = guard(|| BoundaryConstraints::<B>::new(&ctx, list.clone(), vec![], &coeffs));
            let d = json!({"n": n, "list": idx.iter().map(|&i| uni[i].desc()).collect::<Vec<_>>()});
            match (r, want_panic) {
                (Ok(_), true) => rep.violation("overlapping-assertions-accepted-by-boundary-constraints", d),
                (Err(p), false) => rep.violation(&format!("{}|disjoint-assertions-refused", p.sig()), d),
                (Err(p), true) if !p.message.contains("overlaps") => rep.violation(&format!("{}|overlap-list-other-panic", p.sig()), d),
                _ => {},
            }
        }
        if rep.samples.len() < rep.max_samples {
            rep.sample(json!({"n": n, "assertions": uni.len(), "ordered_pairs": npairs, "overlapping": noverlap, "example": uni[uni.len() / 3].desc()}));
        }
        n *= 2;
    }
    rep.extra.insert("max_trace_length".into(), json!(maxn));
    rep.finish(&args.out());
}
