//! C12: FFT evaluation / interpolation / degree inference against naive evaluation over the
//! offset subgroup, natural order; thread independence through cross-run digests.
use vcommon::refarith::{mulm, poly_eval, powm, Ext, ExtSpec};
use vcommon::{fnv, guard, json, Args, Report, Rng};
use vwf::{BaseFut, Fut};
use winter_math::fft;
use winter_math::fields::{f128, f62, f64 as f64m, CubeExtension, QuadExtension};
use winter_math::{FieldElement, StarkField};

fn threads() -> usize {
    if cfg!(feature = "concurrent") {
        std::env::var("RAYON_NUM_THREADS").ok().and_then(|s| s.parse().ok()).unwrap_or(0)
    } else {
        1
    }
}

fn digest<E: Fut>(v: &[E]) -> String {
    let mut bytes = Vec::with_capacity(v.len() * 16 * E::DEG);
    for e in v {
        for c in &e.to_ref()[..E::DEG] {
            bytes.extend_from_slice(&c.to_le_bytes());
        }
    }
    format!("{:016x}", fnv(&bytes))
}

struct Cx<'a> {
    rep: &'a mut Report,
    digests: &'a mut serde_json_map::Map,
    seed: u64,
    full_limit: usize,
}

mod serde_json_map {
    pub type Map = std::collections::BTreeMap<String, String>;
}

/// root of unity of order 2^k per the reference: the code's TWO_ADIC_ROOT raised by reference
/// arithmetic (C11 checks the constant itself)
fn ref_root<B: BaseFut>(k: u32) -> u128 {
    let p = B::SPEC.p;
    let w = B::TWO_ADIC_ROOT_OF_UNITY.int();
    powm(w, 1u128 << (B::SPEC.two_adicity - k), p)
}

fn check_points<E: Fut>(cx: &mut Cx, what: &str, params: &vcommon::Value, coeffs: &[Ext], got: &[E], g: u128, offset: u128) {
    let es: ExtSpec = E::spec();
    let p = es.p;
    let n = got.len();
    let idx: Vec<usize> = if n <= cx.full_limit {
        (0..n).collect()
    } else {
        let mut rng = Rng::for_case(cx.seed, 1201, n as u64);
        let mut v: Vec<usize> = (0..64).map(|_| rng.usize(n)).collect();
        v.extend([0, 1, n / 2 - 1, n / 2, n - 1]);
        v
    };
    for i in idx {
        let x = mulm(offset, powm(g, i as u128, p), p);
        let want = poly_eval(&es, coeffs, [x, 0, 0]);
        cx.rep.evals(1);
        if got[i].to_ref() != want {
            cx.rep.violation(&format!("wrong-value|{}|{}", E::name(), what),
                json!({"params": params, "index": i, "got": format!("{:?}", &got[i].to_ref()[..E::DEG]), "reference": format!("{:?}", &want[..E::DEG]), "threads": threads()}));
            return;
        }
    }
}

fn offsets<B: BaseFut>(rng: &mut Rng) -> Vec<(B, u128, &'static str)> {
    let p = B::SPEC.p;
    let r = 1 + rng.below128(p - 1);
    vec![
        (B::GENERATOR, B::GENERATOR.int(), "generator"),
        (B::ONE, 1, "one"),
        (B::from_int(r), r, "random"),
        (B::from_int(p - 1), p - 1, "minus-one"),
    ]
}

fn run_size<E: Fut>(cx: &mut Cx, k: u32, blowups: &[usize])
where
    E: FieldElement<BaseField = <E as Fut>::B>,
{
    type Bf<E> = <E as Fut>::B;
    let n = 1usize << k;
    let name = E::name();
    let mut rng = Rng::for_case(cx.seed, 1200 + E::DEG as u64, ((k as u64) << 8) ^ (E::B::SPEC.p as u64));
    let (coeffs, cvals): (Vec<E>, Vec<Ext>) = (0..n).map(|i| if i % 7 == 3 && rng.chance(1, 3) { (E::ZERO, [0, 0, 0]) } else { E::gen(&mut rng) }).unzip();
    let g_n = ref_root::<Bf<E>>(k);
    let p = E::B::SPEC.p;
    cx.rep.distinct_key(format!("{name}/{k}").as_bytes());
    if n >= 1024 && cfg!(feature = "concurrent") {
        cx.rep.count("cases_at_or_above_concurrency_threshold");
    }

    // twiddles: permuted power series of the root
    let tw = match guard(|| fft::get_twiddles::<Bf<E>>(n)) {
        Ok(t) => t,
        Err(pn) => {
            cx.rep.violation(&format!("{}|{name}|get_twiddles", pn.sig()), json!({"n": n}));
            return;
        },
    };
    let itw = match guard(|| fft::get_inv_twiddles::<Bf<E>>(n)) {
        Ok(t) => t,
        Err(pn) => {
            cx.rep.violation(&format!("{}|{name}|get_inv_twiddles", pn.sig()), json!({"n": n}));
            return;
        },
    };
    if E::DEG == 1 {
        let g_inv = powm(g_n, (n as u128) - 1, p);
        let mut bad = tw.len() != n / 2 || itw.len() != n / 2;
        if !bad {
            for i in 0..n / 2 {
                let j = fft::permute_index(n / 2, i);
                // bit reversal is an involution and stays in range
                if j >= n / 2 || fft::permute_index(n / 2, j) != i {
                    bad = true;
                    break;
                }
                if n / 2 <= cx.full_limit || i % 97 == 0 {
                    if tw[j].int() != powm(g_n, i as u128, p) || itw[j].int() != powm(g_inv, i as u128, p) {
                        bad = true;
                        break;
                    }
                }
            }
        }
        // permute_index is the bit reversal
        for i in [0usize, 1, 2, n / 2, n - 1].into_iter().filter(|i| *i < n) {
            let want = if n == 1 { 0 } else { (i as u64).reverse_bits() >> (64 - k) };
            if fft::permute_index(n, i) as u64 != want {
                bad = true;
            }
        }
        cx.rep.evals(1);
        if bad {
            cx.rep.violation(&format!("wrong-value|{name}|twiddles-or-permute_index"), json!({"n": n}));
        }
    }

    // evaluate_poly, serial_fft
    let mut v = coeffs.clone();
    match guard(|| {
        fft::evaluate_poly(&mut v, &tw);
    }) {
        Err(pn) => cx.rep.violation(&format!("{}|{name}|evaluate_poly", pn.sig()), json!({"n": n, "threads": threads()})),
        Ok(()) => {
            check_points::<E>(cx, "evaluate_poly", &json!({"n": n}), &cvals, &v, g_n, 1);
            cx.digests.insert(format!("{name}/eval/{k}"), digest(&v));
            // interpolation inverts evaluation
            let mut back = v.clone();
            match guard(|| {
                fft::interpolate_poly(&mut back, &itw);
            }) {
                Err(pn) => cx.rep.violation(&format!("{}|{name}|interpolate_poly", pn.sig()), json!({"n": n})),
                Ok(()) => {
                    cx.rep.evals(1);
                    if back.iter().zip(&cvals).any(|(a, b)| a.to_ref() != *b) {
                        cx.rep.violation(&format!("interpolation-does-not-invert-evaluation|{name}|interpolate_poly"), json!({"n": n, "threads": threads()}));
                    }
                    cx.digests.insert(format!("{name}/interp/{k}"), digest(&back));
                },
            }
        },
    }
    let mut v2 = coeffs.clone();
    if guard(|| fft::serial_fft(&mut v2, &tw)).is_ok() {
        check_points::<E>(cx, "serial_fft", &json!({"n": n}), &cvals, &v2, g_n, 1);
    }

    // evaluate_poly_with_offset for blowups x offsets
    for (oi, (off, offv, oname)) in offsets::<Bf<E>>(&mut rng).into_iter().enumerate() {
        // short polynomials over large domains (a periodic column on a constraint evaluation domain)
        // get large blowups as well
        let extra: &[usize] = if n <= 64 { &[128, 256, 512, 1024, 4096, 16384] } else { &[] };
        for &bl in blowups.iter().chain(extra.iter()) {
            if (n * bl).trailing_zeros() > E::B::SPEC.two_adicity || n * bl > (1 << 17) {
                continue;
            }
            if oi >= 2 && bl > 4 && n > 256 {
                continue;
            }
            let kk = (n * bl).trailing_zeros();
            let g_big = ref_root::<Bf<E>>(kk);
            let mut pcopy = coeffs.clone();
            let params = json!({"n": n, "blowup": bl, "offset": oname});
            match guard(|| fft::evaluate_poly_with_offset(&mut pcopy, &tw, off, bl)) {
                Err(pn) => cx.rep.violation(&format!("{}|{name}|evaluate_poly_with_offset", pn.sig()), json!({"params": params, "threads": threads()})),
                Ok(r) => {
                    if r.len() != n * bl {
                        cx.rep.violation(&format!("wrong-length|{name}|evaluate_poly_with_offset"), json!({"params": params, "got": r.len()}));
                        continue;
                    }
                    check_points::<E>(cx, "evaluate_poly_with_offset", &params, &cvals, &r, g_big, offv);
                    cx.digests.insert(format!("{name}/evaloff/{k}/{bl}/{oname}"), digest(&r));
                    if bl == 1 {
                        // interpolate_poly_with_offset inverts it
                        let mut back = r.clone();
                        match guard(|| {
                            fft::interpolate_poly_with_offset(&mut back, &itw, off);
                        }) {
                            Err(pn) => cx.rep.violation(&format!("{}|{name}|interpolate_poly_with_offset", pn.sig()), json!({"params": params})),
                            Ok(()) => {
                                cx.rep.evals(1);
                                if back.iter().zip(&cvals).any(|(a, b)| a.to_ref() != *b) {
                                    cx.rep.violation(&format!("interpolation-does-not-invert-evaluation|{name}|interpolate_poly_with_offset"), json!({"params": params, "threads": threads()}));
                                }
                                cx.digests.insert(format!("{name}/interpoff/{k}/{oname}"), digest(&back));
                            },
                        }
                    }
                },
            }
        }
        // infer_degree on evaluations of polynomials of known degree over the n-point offset domain
        for deg in [0usize, 1, n / 2, n - 1] {
            if deg >= n {
                continue;
            }
            let mut c = coeffs.clone();
            for (i, x) in c.iter_mut().enumerate() {
                if i > deg {
                    *x = E::ZERO;
                }
            }
            if c[deg].to_ref() == [0, 0, 0] {
                c[deg] = E::ONE;
            }
            let evals = fft::evaluate_poly_with_offset(&mut c.clone(), &tw, off, 1);
            cx.rep.evals(1);
            match guard(|| fft::infer_degree(&evals, off)) {
                Err(pn) => cx.rep.violation(&format!("{}|{name}|infer_degree", pn.sig()), json!({"n": n, "degree": deg, "offset": oname})),
                Ok(d) => {
                    if d != deg {
                        cx.rep.violation(&format!("wrong-value|{name}|infer_degree"), json!({"n": n, "true_degree": deg, "got": d, "offset": oname, "threads": threads()}));
                    }
                },
            }
        }
    }
}

pub fn run(args: &Args) {
    let mut rep = Report::new("C12", "c12",
        "sizes 2^1..2^K for f64, f62, f128 base and f64^2, f64^3, f62^2, f128^2 coefficients; blowups 1..64 (and 128..16384 for sizes <= 64); offsets {generator, 1, random, p-1}; every output compared with naive evaluation over the offset subgroup in natural order (all points up to the full-check limit, 69 spot points above); interpolation inverts; infer_degree on degrees {0,1,n/2,n-1}; digests of every output for cross-thread comparison; distinct = (field, size)");
    let seed = args.seed();
    let max_k = args.u64("maxk", if args.thorough() { 16 } else { 12 }) as u32;
    let full_limit = args.u64("full", if args.thorough() { 4096 } else { 1024 }) as usize;
    let mut digests = serde_json_map::Map::new();
    let blowups = [1usize, 2, 4, 8, 16, 64];
    {
        let mut cx = Cx { rep: &mut rep, digests: &mut digests, seed, full_limit };
        for k in 1..=max_k {
            run_size::<f64m::BaseElement>(&mut cx, k, &blowups);
            if k <= max_k.min(12) {
                run_size::<f62::BaseElement>(&mut cx, k, &blowups[..4]);
                run_size::<QuadExtension<f64m::BaseElement>>(&mut cx, k, &blowups[..3]);
            }
            if k <= max_k.min(11) {
                run_size::<f128::BaseElement>(&mut cx, k, &blowups[..3]);
                run_size::<CubeExtension<f64m::BaseElement>>(&mut cx, k, &blowups[..2]);
                run_size::<QuadExtension<f62::BaseElement>>(&mut cx, k, &blowups[..2]);
            }
            if k <= max_k.min(10) {
                run_size::<QuadExtension<f128::BaseElement>>(&mut cx, k, &blowups[..2]);
            }
        }
    }
    rep.sample(json!({"field": "f64", "n": 1 << max_k.min(13), "checks": "evaluate_poly / with_offset x blowups x offsets vs naive, interpolate inverts, infer_degree", "threads": threads()}));
    rep.extra.insert("digests".into(), json!(digests));
    rep.extra.insert("max_log2_size".into(), json!(max_k));
    rep.extra.insert("full_check_limit".into(), json!(full_limit));
    let _ = <f64m::BaseElement as StarkField>::MODULUS;
    rep.finish(&args.out());
}
