//! Leaf monitors (no AIR needed): utils, math, crypto, fri, air component properties.
use vcommon::Args;

mod c08;
mod c09;
mod c10;
mod c11;
mod c12;
mod c13;
mod c14;
mod c15;
mod c16;
mod c17;
mod c18;
mod c19;
mod c20;
mod c21;
mod c24;
mod c25;
mod c26;
mod c27;
mod fri_attacks;
mod frih;

fn main() {
    vcommon::install_panic_hook();
    let args = Args::parse();
    match args.stage.as_str() {
        "c08" => c08::run(&args),
        "c09" => c09::run(&args),
        "c10_chains" => c10::chains(&args),
        "c10_lattice" => c10::lattice(&args),
        "c11" => c11::run(&args),
        "c12" => c12::run(&args),
        "c13" => c13::run(&args),
        "c14" => c14::run(&args),
        "c15" => c15::run(&args),
        "c16" => c16::run(&args),
        "c17" => c17::run(&args),
        "c18" => c18::run(&args),
        "c18_par_small" => c18::run_small(&args),
        "c19_subst" => c19::subst(&args),
        "c19_malformed" => c19::malformed(&args),
        "c20" => c20::run(&args),
        "c21" => c21::run(&args),
        "c24" => c24::run(&args),
        "c25" => c25::run(&args),
        "c26_rt" => c26::roundtrip(&args),
        "c26_hostile" => c26::hostile(&args),
        "c27_exh" => c27::exhaustive(&args),
        "c27_rand" => c27::random(&args),
        s => {
            eprintln!("unknown stage {s}");
            std::process::exit(2);
        },
    }
}

