//! C27: differential monitor, ReadAdapter over an arbitrarily chunked stream vs SliceReader.
use std::io::Read;

use vcommon::{guard, hex, json, Args, Report, Rng, Value, Worker};
use winter_utils::{ByteReader, DeserializationError, ReadAdapter, SliceReader};

/// std::io::Read that hands out the content in the chunk sizes of a schedule (cycled); a chunk
/// is additionally limited by the caller's buffer, as any reader is.
struct Chunked<'a> {
    data: &'a [u8],
    pos: usize,
    sched: &'a [usize],
    k: usize,
    reads: usize,
}

impl Read for Chunked<'_> {
    fn read(&mut self, buf: &mut [u8]) -> std::io::Result<usize> {
        let want = self.sched[self.k % self.sched.len()].max(1);
        self.k += 1;
        let n = want.min(buf.len()).min(self.data.len() - self.pos);
        buf[..n].copy_from_slice(&self.data[self.pos..self.pos + n]);
        self.pos += n;
        self.reads += 1;
        Ok(n)
    }
}

#[derive(Clone, Debug)]
enum Op {
    Peek,
    U8,
    Bool,
    U16,
    U32,
    U64,
    U128,
    Usize,
    Slice(usize),
    Vec(usize),
    Array(usize),
    ManyU32(usize),
    HasMore,
    CheckEor(usize),
}

const ARRAY_SIZES: [usize; 12] = [0, 1, 2, 3, 5, 7, 8, 16, 31, 32, 64, 300];

#[derive(Debug, PartialEq, Clone)]
enum Out {
    Bytes(Vec<u8>),
    Num(u128),
    Flag(bool),
    ErrEof,
    ErrInvalid,
    ErrOther,
}

fn err(e: DeserializationError) -> Out {
    match e {
        DeserializationError::UnexpectedEOF => Out::ErrEof,
        DeserializationError::InvalidValue(_) => Out::ErrInvalid,
        _ => Out::ErrOther,
    }
}

fn arr<R: ByteReader, const N: usize>(r: &mut R) -> Out {
    match r.read_array::<N>() {
        Ok(a) => Out::Bytes(a.to_vec()),
        Err(e) => err(e),
    }
}

fn apply<R: ByteReader>(r: &mut R, op: &Op) -> Out {
    fn num<T: Into<u128>>(x: Result<T, DeserializationError>) -> Out {
        match x {
            Ok(v) => Out::Num(v.into()),
            Err(e) => err(e),
        }
    }
    match op {
        Op::Peek => num(r.peek_u8()),
        Op::U8 => num(r.read_u8()),
        Op::Bool => match r.read_bool() {
            Ok(b) => Out::Flag(b),
            Err(e) => err(e),
        },
        Op::U16 => num(r.read_u16()),
        Op::U32 => num(r.read_u32()),
        Op::U64 => num(r.read_u64()),
        Op::U128 => num(r.read_u128()),
        Op::Usize => match r.read_usize() {
            Ok(v) => Out::Num(v as u128),
            Err(e) => err(e),
        },
        Op::Slice(k) => match r.read_slice(*k) {
            Ok(s) => Out::Bytes(s.to_vec()),
            Err(e) => err(e),
        },
        Op::Vec(k) => match r.read_vec(*k) {
            Ok(s) => Out::Bytes(s),
            Err(e) => err(e),
        },
        Op::ManyU32(k) => match r.read_many::<u32>(*k) {
            Ok(v) => Out::Bytes(v.iter().flat_map(|x| x.to_le_bytes()).collect()),
            Err(e) => err(e),
        },
        Op::Array(n) => match n {
            0 => arr::<R, 0>(r),
            1 => arr::<R, 1>(r),
            2 => arr::<R, 2>(r),
            3 => arr::<R, 3>(r),
            5 => arr::<R, 5>(r),
            7 => arr::<R, 7>(r),
            8 => arr::<R, 8>(r),
            16 => arr::<R, 16>(r),
            31 => arr::<R, 31>(r),
            32 => arr::<R, 32>(r),
            64 => arr::<R, 64>(r),
            300 => arr::<R, 300>(r),
            _ => unreachable!(),
        },
        Op::HasMore => Out::Flag(r.has_more_bytes()),
        Op::CheckEor(k) => match r.check_eor(*k) {
            Ok(()) => Out::Flag(true),
            Err(e) => err(e),
        },
    }
}

/// Runs one (content, schedule, ops) case on both readers. Returns Some((sig, detail)) on a
/// disagreement the property forbids.
fn run_case(data: &[u8], sched: &[usize], ops: &[Op]) -> Option<(String, Value)> {
    let mut model = SliceReader::new(data);
    let mut inner = Chunked { data, pos: 0, sched, k: 0, reads: 0 };
    let mut adapter = ReadAdapter::new(&mut inner);
    let mut compare = true;
    for (i, op) in ops.iter().enumerate() {
        let want = if compare { Some(apply(&mut model, op)) } else { None };
        let got = guard(|| apply(&mut adapter, op));
        let got = match got {
            Ok(g) => g,
            Err(p) => {
                return Some((
                    format!("adapter-{}", p.sig()),
                    json!({"content_len": data.len(), "content": hex(&data[..data.len().min(48)]), "schedule": &sched[..sched.len().min(16)],
                           "ops": format!("{:?}", &ops[..=i]), "failing_op": i, "panic_line": p.line}),
                ))
            },
        };
        let Some(want) = want else {
            // After a failed read the position is unspecified, so the model no longer tells how
            // much is left. But the adapter itself does: drain it byte by byte and count. An
            // end-of-input report for k bytes although at least k bytes could still be read is
            // "missing data that is actually available".
            if let (Op::CheckEor(k), Out::ErrEof | Out::ErrInvalid | Out::ErrOther) = (op, &got) {
                let avail = guard(|| {
                    let mut r = 0usize;
                    while adapter.read_u8().is_ok() {
                        r += 1;
                    }
                    r
                });
                match avail {
                    Ok(r) if r >= *k && *k > 0 => {
                        return Some((
                            "false-eof|CheckEor-after-failed-read".to_string(),
                            json!({"content_len": data.len(), "content": hex(&data[..data.len().min(48)]), "schedule": &sched[..sched.len().min(16)],
                                   "ops": format!("{:?}", &ops[..=i]), "failing_op": i, "asked": k, "still_readable": r}),
                        ))
                    },
                    Ok(_) => return None,
                    Err(p) => {
                        return Some((format!("adapter-{}", p.sig()), json!({"content_len": data.len(), "ops": format!("{:?}", &ops[..=i]), "phase": "drain"})))
                    },
                }
            }
            continue;
        };
        let ok = match op {
            // one-sided: the adapter may be optimistic, but must not report missing data that
            // is actually available
            Op::CheckEor(_) => !(want == Out::Flag(true) && got != Out::Flag(true)),
            _ => want == got,
        };
        if !ok {
            let kind = match (&want, &got) {
                (Out::ErrEof, _) | (Out::ErrInvalid, _) | (Out::ErrOther, _) => "model-error-adapter-differs",
                (_, Out::ErrEof) => "false-eof",
                (_, Out::ErrInvalid) | (_, Out::ErrOther) => "false-error",
                _ => "value-differs",
            };
            let opname = format!("{op:?}");
            let opname = opname.split('(').next().unwrap().to_string();
            return Some((
                format!("{kind}|{opname}"),
                json!({"content_len": data.len(), "content": hex(&data[..data.len().min(48)]), "schedule": &sched[..sched.len().min(16)],
                       "ops": format!("{:?}", &ops[..=i]), "failing_op": i,
                       "model": format!("{want:?}").chars().take(120).collect::<String>(),
                       "adapter": format!("{got:?}").chars().take(120).collect::<String>()}),
            ));
        }
        // the trait leaves the position unspecified after a failed read: stop comparing values,
        // keep executing on the adapter for panic/UB freedom
        if matches!(want, Out::ErrEof | Out::ErrInvalid | Out::ErrOther) && !matches!(op, Op::Peek | Op::CheckEor(_)) {
            compare = false;
        }
    }
    None
}

fn compositions(n: usize) -> Vec<Vec<usize>> {
    // all ordered ways to write n as a sum of positive integers
    if n == 0 {
        return vec![vec![]];
    }
    let mut out = vec![];
    for mask in 0..(1u32 << (n - 1)) {
        let mut parts = vec![];
        let mut cur = 1;
        for b in 0..n - 1 {
            if mask >> b & 1 == 1 {
                parts.push(cur);
                cur = 1;
            } else {
                cur += 1;
            }
        }
        parts.push(cur);
        out.push(parts);
    }
    out
}

fn read_op_for(size: usize, flavour: usize) -> Op {
    match flavour {
        0 => Op::Slice(size),
        1 => {
            if ARRAY_SIZES.contains(&size) {
                Op::Array(size)
            } else {
                Op::Vec(size)
            }
        },
        _ => match size {
            1 => Op::U8,
            2 => Op::U16,
            4 => Op::U32,
            8 => Op::U64,
            _ => Op::Vec(size),
        },
    }
}

/// exhaustive part: content length L, every chunking composition x every read composition x
/// 3 read flavours, with probes (peek / has_more / check_eor) between reads and one read past
/// the end
pub fn exhaustive(args: &Args) {
    let mut rep = Report::new("C27", "c27_exh",
        "exhaustive: every content length <= L, every composition of it into stream chunks, every composition into read sizes, 3 read flavours, probes between reads; distinct = (chunking, reads, flavour)");
    let max_len = args.budget(8, 11) as usize;
    let mut rng = Rng::for_case(args.seed(), 27, 0);
    for len in 0..=max_len {
        let data = rng.bytes(len);
        let chunkings = compositions(len);
        let readings = compositions(len);
        for sched in &chunkings {
            let sched_or_one: Vec<usize> = if sched.is_empty() { vec![1] } else { sched.clone() };
            for reads in &readings {
                for flavour in 0..3 {
                    let mut ops = vec![];
                    for (j, r) in reads.iter().enumerate() {
                        match (j + flavour) % 4 {
                            0 => ops.push(Op::Peek),
                            1 => ops.push(Op::HasMore),
                            2 => ops.push(Op::CheckEor(*r)),
                            _ => {},
                        }
                        ops.push(read_op_for(*r, flavour));
                    }
                    ops.push(Op::HasMore);
                    ops.push(Op::CheckEor(1));
                    ops.push(Op::Peek);
                    ops.push(read_op_for(1 + flavour, flavour));
                    ops.push(Op::HasMore);
                    if flavour == 0 && reads.len() >= 2 {
                        // over-long read after the first read, then ask for what is really left
                        let left = len - reads[0];
                        let mut ops2 = vec![read_op_for(reads[0], 0), Op::Slice(left + 1 + reads[1]), Op::CheckEor(left), Op::HasMore];
                        ops2.insert(1, Op::Peek);
                        rep.case(format!("overlong{sched:?}{reads:?}").as_bytes(), true);
                        if let Some((sig, d)) = run_case(&data, &sched_or_one, &ops2) {
                            rep.violation(&sig, d);
                        }
                    }
                    let key = format!("{sched:?}{reads:?}{flavour}");
                    rep.case(key.as_bytes(), len > 0);
                    if let Some((sig, d)) = run_case(&data, &sched_or_one, &ops) {
                        rep.violation(&sig, d);
                    } else if rep.samples.len() < 3 && len == max_len && rng.chance(1, 5000) {
                        rep.sample(json!({"content_len": len, "schedule": sched, "ops": format!("{ops:?}")}));
                    }
                }
            }
        }
    }
    rep.extra.insert("max_content_len".into(), json!(max_len));
    rep.finish(&args.out());
}

fn rand_op(rng: &mut Rng, remaining_hint: usize) -> Op {
    let size = |rng: &mut Rng| -> usize {
        match rng.below(8) {
            0 => rng.usize(4),
            1 => 250 + rng.usize(14), // around the 256-byte BufReader
            2 => 500 + rng.usize(30),
            3 => remaining_hint.saturating_sub(rng.usize(3)),
            4 => remaining_hint + 1 + rng.usize(3),
            5 => rng.usize(40),
            _ => rng.usize(remaining_hint + 2),
        }
    };
    match rng.below(20) {
        0 => Op::Peek,
        1 | 2 => Op::U8,
        3 => Op::Bool,
        4 => Op::U16,
        5 => Op::U32,
        6 | 7 => Op::U64,
        8 => Op::U128,
        9 => Op::Usize,
        10 | 11 | 12 => Op::Slice(size(rng)),
        13 => Op::Vec(size(rng)),
        14 | 15 => Op::Array(*rng.pick(&ARRAY_SIZES)),
        16 => Op::ManyU32(rng.usize(80)),
        17 => Op::HasMore,
        _ => Op::CheckEor(size(rng)),
    }
}

fn gen_case(seed: u64, case: u64) -> (Vec<u8>, Vec<usize>, Vec<Op>) {
    let mut rng = Rng::for_case(seed, 2701, case);
    let len = match rng.below(6) {
        0 => rng.usize(24),
        1 => 250 + rng.usize(16),
        2 => 500 + rng.usize(40),
        3 => rng.usize(1200),
        4 => 1000 + rng.usize(3200),
        _ => rng.usize(600),
    };
    let mut data = rng.bytes(len);
    // make vint64 / bool prefixes likely to be well-formed somewhere
    for b in data.iter_mut() {
        if rng.chance(1, 6) {
            *b = *rng.pick(&[0u8, 1, 2, 3, 0x80, 0xff, 0x10]);
        }
    }
    let nsched = 1 + rng.usize(6);
    let sched: Vec<usize> = (0..nsched)
        .map(|_| match rng.below(7) {
            0 => 1,
            1 => 2 + rng.usize(6),
            2 => 255 + rng.usize(3),
            3 => 300 + rng.usize(300),
            4 => 8 + rng.usize(90),
            5 => 100 + rng.usize(156),
            _ => 1 + rng.usize(5000),
        })
        .collect();
    let nops = 1 + rng.usize(12);
    let mut remaining = len;
    let ops: Vec<Op> = (0..nops)
        .map(|_| {
            let op = rand_op(&mut rng, remaining);
            let used = match &op {
                Op::U8 | Op::Bool => 1,
                Op::U16 => 2,
                Op::U32 => 4,
                Op::U64 => 8,
                Op::U128 => 16,
                Op::Usize => 2,
                Op::Slice(k) | Op::Vec(k) | Op::Array(k) => *k,
                Op::ManyU32(k) => 4 * k,
                _ => 0,
            };
            remaining = remaining.saturating_sub(used);
            op
        })
        .collect();
    (data, sched, ops)
}

/// random part, worker protocol (the adapter has unsafe code: an out-of-bounds copy may kill
/// the process; under ASan / Miri it is reported precisely)
pub fn random(args: &Args) {
    let mut rep = Report::new("C27", "c27_rand",
        "random content up to 4 KiB, chunk schedules with sizes around 1 and 256, <= 12 operations; distinct = distinct (content length, schedule, ops); non-trivial = at least one op reads data");
    let mut w = Worker::new(args, args.budget(200_000, 5_000_000));
    for case in w.from..w.to {
        if !w.start(case, &mut rep) {
            continue;
        }
        let (data, sched, ops) = gen_case(args.seed(), case);
        let key = format!("{}{:?}{:?}", data.len(), sched, ops);
        rep.case(key.as_bytes(), !data.is_empty());
        rep.count(&format!("len_class:{}", match data.len() { 0..=23 => "<24", 24..=255 => "24..255", 256..=511 => "256..511", _ => ">=512" }));
        if case % 50_021 == 0 {
            rep.sample(json!({"case": case, "content_len": data.len(), "schedule": sched, "ops": format!("{ops:?}")}));
        }
        if let Some((sig, mut d)) = run_case(&data, &sched, &ops) {
            d["case"] = json!(case);
            d["seed"] = json!(args.seed());
            rep.violation(&sig, d);
        }
    }
    rep.finish(&args.out());
}
