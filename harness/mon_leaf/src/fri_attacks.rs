//! Adaptive substitutions into the revealed data of one FRI proof, given the replayed transcript
//! (alphas, query positions). Shared by C09 (standalone FRI) and C03 (FRI part of STARK proofs).
use vcommon::{json, Rng, Value};
use vwf::Fut;
use winter_crypto::ElementHasher;
use winter_math::{FieldElement, StarkField};

use crate::frih::{self, Run};

pub const FP_FRI_LAYER: u32 = 1;
pub const FP_FRI_REMAINDER: u32 = 2;

pub struct Attack {
    pub kind: &'static str,
    pub bytes: Vec<u8>,
    /// failpoint under which the forged proof must be ACCEPTED for the attack to count as
    /// well-formed (0 = no validation: the edit is not crafted to pass the other checks)
    pub validate_with: u32,
    pub detail: Value,
}

pub fn uniform<E: Fut>(rng: &mut Rng) -> E {
    let p = E::spec().p;
    let mut v = [0u128; 3];
    for c in v.iter_mut().take(E::DEG) {
        *c = rng.below128(p);
    }
    E::from_ref(v)
}

/// product of (x - r) over roots, coefficients lowest degree first
fn poly_from_roots<E: FieldElement>(roots: &[E]) -> Vec<E> {
    let mut p = vec![E::ONE];
    for r in roots {
        let mut q = vec![E::ZERO; p.len() + 1];
        for (i, c) in p.iter().enumerate() {
            q[i + 1] += *c;
            q[i] -= *c * *r;
        }
        p = q;
    }
    p
}

/// all substitutions into the revealed data of one honest run
pub fn attacks<E, H>(rng: &mut Rng, run: &Run<E, H>, alphas: &[E]) -> Vec<Attack>
where
    E: Fut + FieldElement,
    H: ElementHasher<BaseField = <E as FieldElement>::BaseField>,
{
    let geo = &run.geo;
    let bytes = &run.proof_bytes;
    let lay = frih::layout(bytes);
    let n = geo.folding;
    let chain = frih::position_chain(geo, &run.positions);
    let mut out = vec![];
    // ---- remainder
    let rem: Vec<E> = frih::read_elems(&bytes[lay.rem_at..lay.rem_at + lay.rem_len]);
    {
        // one coefficient changed
        let mut r2 = rem.clone();
        let i = rng.usize(r2.len());
        r2[i] += E::ONE;
        out.push(Attack { kind: "remainder-coefficient-changed", bytes: frih::with_remainder(bytes, &r2), validate_with: 0, detail: json!({"coefficient": i}) });
    }
    let final_pos = chain.last().unwrap();
    let k = final_pos.len();
    if k < rem.len() {
        // A1: R' = R + c * prod (x - x_i) over the queried final points: agrees with every folded
        // evaluation the verifier can see; only the commitment can tell it from R
        let xs: Vec<E> = final_pos.iter().map(|&p| E::from(frih::x_at::<<E as FieldElement>::BaseField>(geo, geo.num_layers(), p))).collect();
        let z = poly_from_roots(&xs); // lowest first, degree k
        let c = loop {
            let c = uniform::<E>(rng);
            if c != E::ZERO {
                break c;
            }
        };
        let mut r2 = rem.clone(); // highest first
        let len = r2.len();
        for (i, zc) in z.iter().enumerate() {
            r2[len - 1 - i] += c * *zc;
        }
        out.push(Attack { kind: "remainder-crafted-to-agree-on-queried-points", bytes: frih::with_remainder(bytes, &r2), validate_with: FP_FRI_REMAINDER, detail: json!({"queried_final_points": k, "remainder_coefficients": len}) });
    }
    if rem.len() >= 2 && rem[..rem.len() / 2].iter().all(|c| *c == E::ZERO) {
        // same function, fewer coefficients (stored highest degree first)
        let r2 = rem[rem.len() / 2..].to_vec();
        out.push(Attack { kind: "remainder-leading-zeros-trimmed", bytes: frih::with_remainder(bytes, &r2), validate_with: FP_FRI_REMAINDER, detail: json!({"from": rem.len(), "to": r2.len()}) });
    }
    // ---- layers
    if !lay.layers.is_empty() {
        let root_n = <E as FieldElement>::BaseField::get_root_of_unity(geo.domain().ilog2()).exp(((geo.domain() / n) as u64).into());
        for depth in 0..lay.layers.len() {
            let (vat, vl, _, _) = lay.layers[depth];
            let vals: Vec<E> = frih::read_elems(&bytes[vat..vat + vl]);
            let rows = vals.len() / n;
            let dom = geo.domain() / n.pow(depth as u32);
            let row_len = dom / n;
            let patch = |vals: &[E]| {
                let mut b = bytes.clone();
                b[vat..vat + vl].copy_from_slice(&frih::write_elems(vals));
                b
            };
            // naive: one value changed (compared coordinate or not)
            {
                let mut v2 = vals.clone();
                let i = rng.usize(v2.len());
                v2[i] += E::ONE;
                out.push(Attack { kind: "layer-value-changed", bytes: patch(&v2), validate_with: 0, detail: json!({"layer": depth, "value": i}) });
            }
            if rows >= 2 {
                let (a, b) = (rng.usize(rows), rng.usize(rows));
                if a != b && vals[a * n..(a + 1) * n] != vals[b * n..(b + 1) * n] {
                    let mut v2 = vals.clone();
                    for c in 0..n {
                        v2.swap(a * n + c, b * n + c);
                    }
                    out.push(Attack { kind: "layer-rows-swapped", bytes: patch(&v2), validate_with: 0, detail: json!({"layer": depth, "rows": [a, b]}) });
                }
            }
            // A2: two coordinates of one row that are not compared with the previous layer are
            // moved along the kernel of "evaluate the row polynomial at alpha"
            let src = &chain[depth];
            let folded = &chain[depth + 1];
            let j = rng.usize(folded.len());
            let f = folded[j];
            let free: Vec<usize> = (0..n).filter(|c| !src.contains(&(f + c * row_len))).collect();
            if free.len() >= 2 {
                let (a, b) = (free[0], free[free.len() - 1]);
                let xe = frih::x_at::<<E as FieldElement>::BaseField>(geo, depth, f);
                let xs: Vec<E> = (0..n).map(|c| E::from(xe * root_n.exp((c as u64).into()))).collect();
                let alpha = alphas[depth];
                let lagrange = |c: usize| {
                    let mut num = E::ONE;
                    let mut den = E::ONE;
                    for m in 0..n {
                        if m != c {
                            num *= alpha - xs[m];
                            den *= xs[c] - xs[m];
                        }
                    }
                    num / den
                };
                let (la, lb) = (lagrange(a), lagrange(b));
                if la != E::ZERO || lb != E::ZERO {
                    let mut v2 = vals.clone();
                    v2[j * n + a] += lb;
                    v2[j * n + b] -= la;
                    out.push(Attack { kind: "layer-row-crafted-to-keep-its-fold", bytes: patch(&v2), validate_with: FP_FRI_LAYER, detail: json!({"layer": depth, "row": j, "coordinates": [a, b]}) });
                }
            }
        }
    }
    out
}

