//! C14: batch field utilities vs element-wise definitions; slice regrouping preserves order.
//! Run under the serial build and under the `concurrent` build at several thread counts; the
//! lengths straddle the parallel batch boundaries computed from the actual thread count.
use vcommon::refarith::Ext;
use vcommon::{guard, json, Args, Report, Rng};
use vwf::Fut;
use winter_math::fields::{f128, f62, f64 as f64m, QuadExtension};
use winter_math::{add_in_place, batch_inversion, get_power_series, get_power_series_with_offset, mul_acc, FieldElement};
use winter_utils::{flatten_slice_elements, flatten_vector_elements, group_slice_elements, transpose_slice};

fn threads() -> usize {
    if cfg!(feature = "concurrent") {
        std::env::var("RAYON_NUM_THREADS").ok().and_then(|s| s.parse().ok()).unwrap_or_else(|| std::thread::available_parallelism().map(|n| n.get()).unwrap_or(1))
    } else {
        1
    }
}

/// lengths to test: everything small, then the neighbourhood of every parallel batch boundary
fn lengths(thorough: bool) -> Vec<usize> {
    let mut v: Vec<usize> = (0..=70).collect();
    let p = threads().next_power_of_two();
    for base in [1024usize, 1025, 1500, 2048] {
        for d in [-2i64, -1, 0, 1, 2] {
            for extra in [0usize, 1, p - 1, p, p + 1] {
                let l = (base * p) as i64 + d + extra as i64;
                if l > 0 {
                    v.push(l as usize);
                }
            }
        }
    }
    for l in [127usize, 128, 129, 1023, 1024, 1025, 2047, 2048, 4095, 4097] {
        v.push(l);
    }
    if thorough {
        for k in 1..=6 {
            v.push(1024 * p * k + k);
            v.push(1024 * p * k - 1);
        }
    }
    v.sort_unstable();
    v.dedup();
    v
}

fn is_parallel_len(len: usize) -> bool {
    cfg!(feature = "concurrent") && len / threads().next_power_of_two() >= 1024
}

fn show<E: Fut>(v: Ext) -> String {
    format!("{:?}", &v[..E::DEG])
}

fn field_cases<E: Fut>(rep: &mut Report, seed: u64, lens: &[usize], heavy_ok: bool) {
    let es = E::spec();
    let name = E::name();
    let p = threads().next_power_of_two();
    for &len in lens {
        if !heavy_ok && len > 5000 {
            continue;
        }
        let mut rng = Rng::for_case(seed, 1400 + E::DEG as u64, len as u64 ^ (es.p as u64));
        rep.distinct_key(format!("{name}{len}").as_bytes());
        if is_parallel_len(len) {
            rep.count("cases_on_parallel_path");
        } else {
            rep.count("cases_on_serial_path");
        }
        // --- batch inversion with zeros at interesting positions
        for zmode in 0..5 {
            let (mut xs, mut vs): (Vec<E>, Vec<Ext>) = (0..len).map(|_| E::gen(&mut rng)).unzip();
            let batch = (len / p).max(1);
            for i in 0..len {
                let z = match zmode {
                    0 => false,
                    1 => i % batch == 0,                 // first of every batch
                    2 => (i + 1) % batch == 0 || i + 1 == len, // last of every batch
                    3 => true,                           // all zeros
                    _ => rng.chance(1, 7),
                };
                if z {
                    xs[i] = E::ZERO;
                    vs[i] = [0, 0, 0];
                }
            }
            rep.evals(1);
            rep.count("op:batch_inversion");
            match guard(|| batch_inversion(&xs)) {
                Err(pn) => rep.violation(&format!("{}|{name}|batch_inversion", pn.sig()), json!({"len": len, "zero_mode": zmode, "threads": threads()})),
                Ok(r) => {
                    if r.len() != len {
                        rep.violation(&format!("wrong-length|{name}|batch_inversion"), json!({"len": len, "got": r.len()}));
                    } else {
                        // checking x * inv == 1 needs one reference multiplication per element
                        for i in 0..len {
                            let rv = r[i].to_ref();
                            let ok = if vs[i] == [0, 0, 0] { rv == [0, 0, 0] } else { es.mul(vs[i], rv) == es.one() };
                            if !ok {
                                rep.violation(&format!("wrong-result|{name}|batch_inversion"),
                                    json!({"len": len, "index": i, "zero_mode": zmode, "threads": threads(), "value": show::<E>(vs[i]), "got": show::<E>(rv)}));
                                break;
                            }
                        }
                    }
                },
            }
            if len > 3000 && zmode >= 2 {
                break;
            }
        }
        // --- power series
        let (b, bv) = E::gen(&mut rng);
        let (s, sv) = E::gen(&mut rng);
        for with_offset in [false, true] {
            rep.evals(1);
            let opn = if with_offset { "get_power_series_with_offset" } else { "get_power_series" };
            rep.count(&format!("op:{opn}"));
            let r = guard(|| if with_offset { get_power_series_with_offset(b, s, len) } else { get_power_series(b, len) });
            match r {
                Err(pn) => rep.violation(&format!("{}|{name}|{opn}", pn.sig()), json!({"len": len, "threads": threads()})),
                Ok(r) => {
                    if r.len() != len {
                        rep.violation(&format!("wrong-length|{name}|{opn}"), json!({"len": len, "got": r.len()}));
                        continue;
                    }
                    let mut cur = if with_offset { sv } else { es.one() };
                    for i in 0..len {
                        if r[i].to_ref() != cur {
                            rep.violation(&format!("wrong-result|{name}|{opn}"),
                                json!({"len": len, "index": i, "threads": threads(), "b": show::<E>(bv), "got": show::<E>(r[i].to_ref()), "reference": show::<E>(cur)}));
                            break;
                        }
                        cur = es.mul(cur, bv);
                    }
                },
            }
        }
        // --- add_in_place
        let (mut a, av): (Vec<E>, Vec<Ext>) = (0..len).map(|_| E::gen(&mut rng)).unzip();
        let (c, cv): (Vec<E>, Vec<Ext>) = (0..len).map(|_| E::gen(&mut rng)).unzip();
        rep.evals(1);
        rep.count("op:add_in_place");
        match guard(|| {
            add_in_place(&mut a, &c);
        }) {
            Err(pn) => rep.violation(&format!("{}|{name}|add_in_place", pn.sig()), json!({"len": len})),
            Ok(()) => {
                for i in 0..len {
                    if a[i].to_ref() != es.add(av[i], cv[i]) {
                        rep.violation(&format!("wrong-result|{name}|add_in_place"), json!({"len": len, "index": i, "threads": threads()}));
                        break;
                    }
                }
            },
        }
    }
}

/// mul_acc: a[i] += c * b[i] with b in the base field and a, c in an extension
fn mul_acc_cases(rep: &mut Report, seed: u64, lens: &[usize]) {
    type B = f64m::BaseElement;
    type E = QuadExtension<B>;
    let es = <E as Fut>::spec();
    for &len in lens {
        let mut rng = Rng::for_case(seed, 1450, len as u64);
        let (mut a, av): (Vec<E>, Vec<Ext>) = (0..len).map(|_| E::gen(&mut rng)).unzip();
        let (b, bv): (Vec<B>, Vec<Ext>) = (0..len).map(|_| <B as Fut>::gen(&mut rng)).unzip();
        let (c, cv) = E::gen(&mut rng);
        rep.evals(1);
        rep.count("op:mul_acc");
        match guard(|| {
            mul_acc(&mut a, &b, c);
        }) {
            Err(pn) => rep.violation(&format!("{}|f64^2|mul_acc", pn.sig()), json!({"len": len})),
            Ok(()) => {
                for i in 0..len {
                    let want = es.add(av[i], es.mul_base(cv, bv[i][0]));
                    if a[i].to_ref() != want {
                        rep.violation("wrong-result|f64^2|mul_acc", json!({"len": len, "index": i, "threads": threads()}));
                        break;
                    }
                }
            },
        }
        // same-field variant (F = E)
        let (mut a2, av2): (Vec<B>, Vec<Ext>) = (0..len).map(|_| <B as Fut>::gen(&mut rng)).unzip();
        let (c2, cv2) = <B as Fut>::gen(&mut rng);
        let bs = <B as Fut>::spec();
        if guard(|| mul_acc(&mut a2, &b, c2)).is_ok() {
            for i in 0..len {
                if a2[i].to_ref() != bs.add(av2[i], bs.mul(cv2, bv[i])) {
                    rep.violation("wrong-result|f64^1|mul_acc", json!({"len": len, "index": i}));
                    break;
                }
            }
        }
    }
}

/// order preservation of group / flatten / transpose on tagged values
fn regroup<const N: usize>(rep: &mut Report, rows: usize, rng: &mut Rng) {
    let n = rows * N;
    let src: Vec<u64> = (0..n as u64).map(|i| i.wrapping_mul(0x9e3779b97f4a7c15) ^ 0xabcd).collect();
    rep.evals(4);
    rep.distinct_key(format!("regroup{N}x{rows}").as_bytes());
    // group
    match guard(|| group_slice_elements::<u64, N>(&src).to_vec()) {
        Err(pn) => rep.violation(&format!("{}|group_slice_elements<{N}>", pn.sig()), json!({"rows": rows})),
        Ok(g) => {
            let ok = g.len() == rows && (0..rows).all(|i| (0..N).all(|j| g[i][j] == src[i * N + j]));
            if !ok {
                rep.violation(&format!("order-not-preserved|group_slice_elements<{N}>"), json!({"rows": rows}));
            }
            // flatten (slice) is the inverse
            let f = flatten_slice_elements::<u64, N>(&g);
            if f != src.as_slice() {
                rep.violation(&format!("order-not-preserved|flatten_slice_elements<{N}>"), json!({"rows": rows}));
            }
            // flatten (vector), with and without spare capacity
            for spare in [0usize, 1, 7] {
                let mut v: Vec<[u64; N]> = Vec::with_capacity(rows + spare);
                v.extend_from_slice(&g);
                if rng.bool() && !v.is_empty() && spare > 0 {
                    // grown-then-shrunk vectors have spare capacity too
                    v.push([0; N]);
                    v.pop();
                }
                match guard(move || flatten_vector_elements::<u64, N>(v)) {
                    Err(pn) => rep.violation(&format!("{}|flatten_vector_elements<{N}>", pn.sig()), json!({"rows": rows, "spare": spare})),
                    Ok(fv) => {
                        if fv != src {
                            rep.violation(&format!("order-not-preserved|flatten_vector_elements<{N}>"), json!({"rows": rows, "spare_capacity": spare, "got_len": fv.len(), "expected_len": n}));
                        }
                    },
                }
            }
        },
    }
    // transpose: result[i][j] == source[i + j * rows]
    match guard(|| transpose_slice::<u64, N>(&src)) {
        Err(pn) => rep.violation(&format!("{}|transpose_slice<{N}>", pn.sig()), json!({"rows": rows})),
        Ok(t) => {
            let ok = t.len() == rows && (0..rows).all(|i| (0..N).all(|j| t[i][j] == src[i + j * rows]));
            if !ok {
                rep.violation(&format!("order-not-preserved|transpose_slice<{N}>"), json!({"rows": rows, "threads": threads()}));
            }
        },
    }
}

pub fn run(args: &Args) {
    let mut rep = Report::new("C14", "c14",
        "lengths 0..70 exhaustively plus the neighbourhood (+-2, +0/1/P-1/P/P+1) of 1024*P, 1025*P, 1500*P, 2048*P where P = thread count rounded to a power of two; zeros placed at batch starts/ends/everywhere; f64, f64^2, f62, f128; regrouping with N in {2,4,8} incl. vectors with spare capacity; distinct = (field, length)");
    let seed = args.seed();
    let maxlen = args.u64("maxlen", u64::MAX) as usize;
    let lens: Vec<usize> = lengths(args.thorough()).into_iter().filter(|l| *l <= maxlen).collect();
    field_cases::<f64m::BaseElement>(&mut rep, seed, &lens, true);
    field_cases::<QuadExtension<f64m::BaseElement>>(&mut rep, seed, &lens, args.thorough());
    field_cases::<f62::BaseElement>(&mut rep, seed, &lens, args.thorough());
    field_cases::<f128::BaseElement>(&mut rep, seed, &lens, false);
    mul_acc_cases(&mut rep, seed, &lens);
    let mut rng = Rng::for_case(seed, 1490, 0);
    for rows in (0..=40).chain([127, 128, 255, 256, 1023, 1024, 1025, 2048, 4099]).filter(|r| *r <= maxlen) {
        regroup::<2>(&mut rep, rows, &mut rng);
        regroup::<4>(&mut rep, rows, &mut rng);
        regroup::<8>(&mut rep, rows, &mut rng);
        regroup::<3>(&mut rep, rows, &mut rng);
    }
    rep.extra.insert("threads".into(), json!(threads()));
    rep.extra.insert("concurrent_feature".into(), json!(cfg!(feature = "concurrent")));
    rep.sample(json!({"threads": threads(), "lengths_tested": lens.len(), "some_lengths": lens.iter().rev().take(8).collect::<Vec<_>>()}));
    let _ = <f64m::BaseElement as FieldElement>::ZERO;
    rep.finish(&args.out());
}
