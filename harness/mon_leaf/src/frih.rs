//! Standalone FRI wiring shared by C08 / C09 (and the FRI part of C03): honest prover run,
//! verifier run, transcript replay (alphas, folded positions) and byte-level proof surgery.
use vcommon::{guard, PanicInfo, Rng};
use vwf::Fut;
use winter_crypto::{DefaultRandomCoin, ElementHasher, Hasher, MerkleTree, RandomCoin};
use winter_fri::folding::fold_positions;
use winter_fri::{DefaultProverChannel, DefaultVerifierChannel, FriOptions, FriProof, FriProver, FriVerifier};
use winter_math::{fft, FieldElement, StarkField};
use winter_utils::{Deserializable, Serializable, SliceReader};

#[derive(Clone, Debug)]
pub struct Geo {
    /// degree bound + 1 (power of two)
    pub d: usize,
    pub blowup: usize,
    pub folding: usize,
    pub rem: usize,
}

impl Geo {
    pub fn domain(&self) -> usize {
        self.d * self.blowup
    }
    /// FRI geometry predicate (DESIGN.md C08): every layer can be committed and folded
    pub fn realisable(&self) -> bool {
        let (mut d, mut dom) = (self.d, self.domain());
        if dom < 8 {
            return false;
        }
        while dom > (self.rem + 1) * self.blowup {
            if d % self.folding != 0 || dom / self.folding < 2 {
                return false;
            }
            d /= self.folding;
            dom /= self.folding;
        }
        true
    }
    pub fn num_layers(&self) -> usize {
        let (mut n, mut dom) = (0, self.domain());
        while dom > (self.rem + 1) * self.blowup {
            dom /= self.folding;
            n += 1;
        }
        n
    }
    /// number of remainder coefficients
    pub fn rem_len(&self) -> usize {
        self.d / self.folding.pow(self.num_layers() as u32)
    }
    pub fn options(&self) -> FriOptions {
        FriOptions::new(self.blowup, self.folding, self.rem)
    }
    pub fn gen(rng: &mut Rng, max_log_d: u32) -> Geo {
        loop {
            let g = Geo {
                d: 1 << rng.range(1, max_log_d as usize),
                blowup: 1 << rng.range(1, 7),
                folding: 1 << rng.range(1, 4),
                rem: (1 << rng.usize(9)) - 1,
            };
            if g.domain() <= 1 << 17 && g.realisable() {
                return g;
            }
        }
    }
}

pub struct Run<E: FieldElement, H: Hasher> {
    pub geo: Geo,
    pub evaluations: Vec<E>,
    pub positions: Vec<usize>,
    pub commitments: Vec<H::Digest>,
    pub proof: FriProof,
    pub proof_bytes: Vec<u8>,
}

/// evaluations of the polynomial with the given coefficients (len <= domain) over the FRI domain
pub fn evaluate<E: FieldElement>(coeffs: &[E], domain: usize) -> Vec<E> {
    let mut p = coeffs.to_vec();
    p.resize(domain, E::ZERO);
    let tw = fft::get_twiddles::<E::BaseField>(domain);
    fft::evaluate_poly(&mut p, &tw);
    p
}

pub fn random_poly<E: Fut>(rng: &mut Rng, degree: usize) -> Vec<E> {
    let mut c: Vec<E> = (0..=degree).map(|_| if rng.chance(1, 12) { E::ZERO } else { E::gen(rng).0 }).collect();
    // exact degree
    while c[degree] == E::ZERO {
        c[degree] = E::gen(rng).0;
    }
    c
}

/// how the query positions are chosen
#[derive(Clone, Debug)]
pub enum Pos {
    /// drawn from the prover channel with this many queries and nonce
    Drawn(usize, u64),
    Given(Vec<usize>),
}

/// honest FRI prover on `evaluations`
pub fn prove<E, H>(geo: &Geo, evaluations: Vec<E>, pos: &Pos) -> Result<Run<E, H>, PanicInfo>
where
    E: FieldElement,
    H: ElementHasher<BaseField = E::BaseField>,
{
    guard(|| {
        let nq = match pos {
            Pos::Drawn(n, _) => *n,
            Pos::Given(v) => v.len().max(1),
        };
        let mut channel = DefaultProverChannel::<E, H, DefaultRandomCoin<H>>::new(geo.domain(), nq);
        let mut prover = FriProver::<E, _, H, MerkleTree<H>>::new(geo.options());
        prover.build_layers(&mut channel, evaluations.clone());
        let positions = match pos {
            Pos::Drawn(_, nonce) => channel.draw_query_positions(*nonce),
            Pos::Given(v) => v.clone(),
        };
        let proof = prover.build_proof(&positions);
        Run { geo: geo.clone(), evaluations, positions, commitments: channel.layer_commitments().to_vec(), proof_bytes: proof.to_bytes(), proof }
    })
}

#[derive(Debug, Clone, PartialEq)]
pub enum Verdict {
    Accept,
    /// error text of the rejecting step
    Reject(String),
}

/// FRI verifier on (possibly edited) proof bytes, commitments and claimed evaluations
pub fn verify_bytes<E, H>(
    geo: &Geo,
    proof_bytes: &[u8],
    commitments: &[H::Digest],
    queried: &[E],
    positions: &[usize],
    max_degree: usize,
) -> Result<Verdict, PanicInfo>
where
    E: FieldElement,
    H: ElementHasher<BaseField = E::BaseField>,
{
    guard(|| {
        let mut rd = SliceReader::new(proof_bytes);
        let proof = match FriProof::read_from(&mut rd) {
            Ok(p) => p,
            Err(e) => return Verdict::Reject(format!("decode: {e}")),
        };
        if winter_utils::ByteReader::has_more_bytes(&rd) {
            return Verdict::Reject("decode: unconsumed bytes".into());
        }
        verify_proof_inner::<E, H>(geo, proof, commitments, queried, positions, max_degree)
    })
}

fn verify_proof_inner<E, H>(geo: &Geo, proof: FriProof, commitments: &[H::Digest], queried: &[E], positions: &[usize], max_degree: usize) -> Verdict
where
    E: FieldElement,
    H: ElementHasher<BaseField = E::BaseField>,
{
    let mut channel = match DefaultVerifierChannel::<E, H, MerkleTree<H>>::new(proof, commitments.to_vec(), geo.domain(), geo.folding) {
        Ok(c) => c,
        Err(e) => return Verdict::Reject(format!("channel: {e}")),
    };
    let mut coin = DefaultRandomCoin::<H>::new(&[]);
    let verifier = match FriVerifier::new(&mut channel, &mut coin, geo.options(), max_degree) {
        Ok(v) => v,
        Err(e) => return Verdict::Reject(format!("new: {e:?}")),
    };
    match verifier.verify(&mut channel, queried, positions) {
        Ok(()) => Verdict::Accept,
        Err(e) => Verdict::Reject(format!("verify: {e:?}")),
    }
}

/// verification of the proof object as the prover returned it (no serialization in between)
pub fn verify_object<E, H>(run: &Run<E, H>) -> Result<Verdict, PanicInfo>
where
    E: FieldElement,
    H: ElementHasher<BaseField = E::BaseField>,
{
    let queried: Vec<E> = run.positions.iter().map(|&p| run.evaluations[p]).collect();
    guard(|| verify_proof_inner::<E, H>(&run.geo, run.proof.clone(), &run.commitments, &queried, &run.positions, run.geo.d - 1))
}

pub fn verify_run<E, H>(run: &Run<E, H>, proof_bytes: &[u8]) -> Result<Verdict, PanicInfo>
where
    E: FieldElement,
    H: ElementHasher<BaseField = E::BaseField>,
{
    let queried: Vec<E> = run.positions.iter().map(|&p| run.evaluations[p]).collect();
    verify_bytes::<E, H>(&run.geo, proof_bytes, &run.commitments, &queried, &run.positions, run.geo.d - 1)
}

/// positions queried at every layer: element 0 = input positions, element i = positions in the
/// domain after i folds (deduplicated as the protocol does), through the public `fold_positions`
pub fn position_chain(geo: &Geo, positions: &[usize]) -> Vec<Vec<usize>> {
    let mut out = vec![positions.to_vec()];
    let mut dom = geo.domain();
    for _ in 0..geo.num_layers() {
        let next = fold_positions(out.last().unwrap(), dom, geo.folding);
        out.push(next);
        dom /= geo.folding;
    }
    out
}

/// replays the public coin: alpha for every commitment (the last one belongs to the remainder)
pub fn replay_alphas<E, H>(commitments: &[H::Digest]) -> Vec<E>
where
    E: FieldElement,
    H: ElementHasher<BaseField = E::BaseField>,
{
    let mut coin = DefaultRandomCoin::<H>::new(&[]);
    commitments
        .iter()
        .map(|c| {
            coin.reseed(*c);
            coin.draw::<E>().expect("alpha")
        })
        .collect()
}

// ------------------------------------------------------------------------------------------------
// byte-level surgery on a serialized FriProof (layout from its write_into)
// ------------------------------------------------------------------------------------------------

#[derive(Clone, Debug)]
pub struct Layout {
    /// per layer: (offset of values, length of values, offset of paths, length of paths)
    pub layers: Vec<(usize, usize, usize, usize)>,
    pub rem_len_at: usize,
    pub rem_at: usize,
    pub rem_len: usize,
    pub partitions_at: usize,
}

pub fn layout(bytes: &[u8]) -> Layout {
    let n = bytes[0] as usize;
    let mut at = 1;
    let mut layers = vec![];
    let rd32 = |at: usize| u32::from_le_bytes(bytes[at..at + 4].try_into().unwrap()) as usize;
    for _ in 0..n {
        let vl = rd32(at);
        let vat = at + 4;
        let pl = rd32(vat + vl);
        let pat = vat + vl + 4;
        layers.push((vat, vl, pat, pl));
        at = pat + pl;
    }
    let rem_len = u16::from_le_bytes(bytes[at..at + 2].try_into().unwrap()) as usize;
    Layout { layers, rem_len_at: at, rem_at: at + 2, rem_len, partitions_at: at + 2 + rem_len }
}

pub fn read_elems<E: FieldElement>(bytes: &[u8]) -> Vec<E> {
    let mut rd = SliceReader::new(bytes);
    winter_utils::ByteReader::read_many(&mut rd, bytes.len() / E::ELEMENT_BYTES).expect("elements")
}

pub fn write_elems<E: FieldElement>(v: &[E]) -> Vec<u8> {
    let mut out = vec![];
    for e in v {
        e.write_into(&mut out);
    }
    out
}

/// proof bytes with the remainder replaced (coefficients highest degree first, as stored)
pub fn with_remainder<E: FieldElement>(bytes: &[u8], rem: &[E]) -> Vec<u8> {
    let l = layout(bytes);
    let rb = write_elems(rem);
    let mut out = bytes[..l.rem_len_at].to_vec();
    out.extend_from_slice(&(rb.len() as u16).to_le_bytes());
    out.extend_from_slice(&rb);
    out.extend_from_slice(&bytes[l.partitions_at..]);
    out
}

/// x coordinate the verifier associates with position `pos` in the domain after `depth` folds:
/// domain offset times the generator of that (smaller) domain raised to `pos` (the protocol keeps
/// the same offset at every layer)
pub fn x_at<B: StarkField>(geo: &Geo, depth: usize, pos: usize) -> B {
    let dom = geo.domain() / geo.folding.pow(depth as u32);
    let g = B::get_root_of_unity(dom.ilog2());
    B::GENERATOR * g.exp((pos as u64).into())
}
