//! C17: padding separates inputs of different length: structured input families whose members
//! must all hash to different digests.
use std::collections::HashMap;

use vcommon::{guard, hex, json, Args, Report, Rng};
use vwf::{BaseFut, Fut};
use winter_crypto::hashers::{Blake3_192, Blake3_256, Rp62_248, Rp64_256, RpJive64_256, Sha3_256};
use winter_crypto::{Digest, ElementHasher, Hasher};
use winter_math::fields::{f128, f62, f64 as f64m, QuadExtension};
use winter_math::FieldElement;

/// all members of a family must have pairwise different digests
fn family<D: Digest>(rep: &mut Report, hasher: &str, fam: &str, members: Vec<(String, Result<D, vcommon::PanicInfo>)>) {
    let mut seen: HashMap<[u8; 32], String> = HashMap::new();
    rep.evals(members.len() as u64);
    rep.count(&format!("family:{fam}"));
    rep.count_n("family_members", members.len() as u64);
    for (desc, d) in members {
        match d {
            Err(p) => rep.violation(&format!("{}|{hasher}|{fam}", p.sig()), json!({"member": desc})),
            Ok(d) => {
                let b = d.as_bytes();
                if let Some(prev) = seen.get(&b) {
                    rep.violation(&format!("different-inputs-same-digest|{hasher}|{fam}"), json!({"a": prev, "b": desc, "digest": hex(&b)}));
                } else {
                    seen.insert(b, desc);
                }
            },
        }
    }
}

fn byte_families<H: Hasher>(rep: &mut Report, name: &str, rng: &mut Rng) {
    // every prefix of one string
    let n = 60 + rng.usize(80);
    let s = rng.bytes(n);
    rep.distinct_key(&[name.as_bytes(), &s[..16]].concat());
    family(rep, name, "prefixes", (0..=n).map(|k| (format!("prefix[{k}] of {}", hex(&s[..12])), guard(|| H::hash(&s[..k])))).collect::<Vec<(String, _)>>());
    // zero extensions, at lengths around multiples of 7 and of the 56/28-byte block
    for base_len in [0usize, 1, 5, 6, 7, 8, 13, 14, 27, 28, 29, 48, 49, 55, 56, 57, 62, 63, 64, 111, 112, 113] {
        let mut s = rng.bytes(base_len);
        if base_len > 0 && rng.bool() {
            let l = s.len();
            s[l - 1] = 0; // already ends in zero
        }
        let mut members = vec![];
        for k in 0..=16 {
            let mut t = s.clone();
            t.extend(std::iter::repeat(0u8).take(k));
            members.push((format!("{}||0^{k}", hex(&s[..s.len().min(10)])), guard(|| H::hash(&t))));
        }
        // a trailing 0x01 byte (the terminator value itself) and 0x01 followed by zeros
        for k in 0..=8 {
            let mut t = s.clone();
            t.push(1);
            t.extend(std::iter::repeat(0u8).take(k));
            members.push((format!("{}||01||0^{k}", hex(&s[..s.len().min(10)])), guard(|| H::hash(&t))));
        }
        family(rep, name, "zero-and-terminator-extensions", members);
    }
}

fn element_families<H, E>(rep: &mut Report, name: &str, rng: &mut Rng)
where
    H: ElementHasher<BaseField = <E as Fut>::B>,
    E: Fut + FieldElement<BaseField = <E as Fut>::B>,
{
    for base_len in [0usize, 1, 2, 3, 4, 5, 7, 8, 9, 12, 15, 16, 17, 24] {
        let mut es: Vec<E> = (0..base_len).map(|_| E::gen(rng).0).collect();
        if base_len > 0 && rng.bool() {
            es[base_len - 1] = E::ZERO;
        }
        let mut members = vec![];
        for k in 0..=10 {
            let mut t = es.clone();
            t.extend(std::iter::repeat(E::ZERO).take(k));
            members.push((format!("{} elements of {} || {k} zero elements", base_len, E::name()), guard(|| H::hash_elements(&t))));
        }
        for k in 0..=5 {
            let mut t = es.clone();
            t.push(E::ONE);
            t.extend(std::iter::repeat(E::ZERO).take(k));
            members.push((format!("{} elements || ONE || {k} zeros", base_len), guard(|| H::hash_elements(&t))));
        }
        family(rep, name, &format!("trailing-zero-elements<{}>", E::name()), members);
    }
}

fn digest_families<H: Hasher>(rep: &mut Report, name: &str, rng: &mut Rng) {
    let ds: Vec<H::Digest> = (0..9).map(|_| H::hash(&rng.bytes(20))).collect();
    let zero = H::Digest::default();
    // different splits of the same digest sequence, and zero-digest extensions
    let mut members = vec![];
    for n in 0..=8usize {
        members.push((format!("merge_many(first {n})"), guard(|| H::merge_many(&ds[..n]))));
        let mut t = ds[..n].to_vec();
        t.push(zero);
        members.push((format!("merge_many(first {n} || ZERO)"), guard(|| H::merge_many(&t))));
        t.push(zero);
        members.push((format!("merge_many(first {n} || ZERO || ZERO)"), guard(|| H::merge_many(&t))));
    }
    members.push(("merge(merge(a,b),merge(c,d))".into(), guard(|| H::merge(&[H::merge(&[ds[0], ds[1]]), H::merge(&[ds[2], ds[3]])]))));
    members.push(("merge(a,merge_many(b,c,d))".into(), guard(|| H::merge(&[ds[0], H::merge_many(&ds[1..4])]))));
    members.push(("merge(merge_many(a,b,c),d)".into(), guard(|| H::merge(&[H::merge_many(&ds[..3]), ds[3]]))));
    members.push(("merge(b,a)".into(), guard(|| H::merge(&[ds[1], ds[0]]))));
    family(rep, name, "digest-list-splits", members);
}

fn int_families<H: Hasher>(rep: &mut Report, name: &str, p: u128, rng: &mut Rng) {
    let seed = H::hash(&rng.bytes(16));
    for _ in 0..40 {
        let x: u64 = match rng.below(5) {
            0 => rng.below(4),
            1 => (u64::MAX as u128 - 3 * p.min(u64::MAX as u128 / 3)) as u64 / 2,
            2 => rng.below(1 << 32),
            _ => rng.u64() % (p as u64),
        };
        let mut members = vec![];
        let mut v = x as u128;
        let mut k = 0;
        while v <= u64::MAX as u128 {
            let vv = v as u64;
            members.push((format!("merge_with_int(seed, {x} + {k}p)"), guard(|| H::merge_with_int(seed, vv))));
            v += p;
            k += 1;
        }
        // neighbours
        members.push((format!("merge_with_int(seed, {x}+1)"), guard(|| H::merge_with_int(seed, x.wrapping_add(1)))));
        family(rep, name, "integers-congruent-mod-p", members);
    }
}

macro_rules! one_hasher {
    ($rep:expr, $rng:expr, $h:ty, $name:expr, $b:ty, $p:expr) => {{
        byte_families::<$h>($rep, $name, $rng);
        element_families::<$h, $b>($rep, $name, $rng);
        element_families::<$h, QuadExtension<$b>>($rep, $name, $rng);
        digest_families::<$h>($rep, $name, $rng);
        int_families::<$h>($rep, $name, $p, $rng);
    }};
}

pub fn run(args: &Args) {
    let mut rep = Report::new("C17", "c17",
        "per hasher (Blake3_256, Blake3_192, Sha3_256, Rp64_256, RpJive64_256, Rp62_248): all prefixes of a 60..140-byte string; s||0^k and s||01||0^k at lengths around multiples of 7, 28 and 56; element lists with trailing zero / ONE elements around the rate (base and quadratic); different splits of a digest list and zero-digest extensions; merge_with_int(x + k*p); all digests inside a family must differ; distinct = families' first members");
    let rounds = args.budget(6, 400);
    for r in 0..rounds {
        let mut rng = Rng::for_case(args.seed(), 1700, r);
        one_hasher!(&mut rep, &mut rng, Blake3_256<f64m::BaseElement>, "Blake3_256", f64m::BaseElement, vcommon::refarith::P64);
        one_hasher!(&mut rep, &mut rng, Blake3_192<f62::BaseElement>, "Blake3_192", f62::BaseElement, vcommon::refarith::P62);
        one_hasher!(&mut rep, &mut rng, Sha3_256<f128::BaseElement>, "Sha3_256", f128::BaseElement, vcommon::refarith::P64);
        one_hasher!(&mut rep, &mut rng, Rp64_256, "Rp64_256", f64m::BaseElement, vcommon::refarith::P64);
        one_hasher!(&mut rep, &mut rng, RpJive64_256, "RpJive64_256", f64m::BaseElement, vcommon::refarith::P64);
        one_hasher!(&mut rep, &mut rng, Rp62_248, "Rp62_248", f62::BaseElement, vcommon::refarith::P62);
    }
    rep.sample(json!({"hasher": "RpJive64_256", "family": "zero-and-terminator-extensions", "members": "s||0^k (k=0..16), s||01||0^k (k=0..8) for |s| in {0,1,5,6,7,8,13,14,27,28,29,48,49,55,56,57,62,63,64,111,112,113}"}));
    rep.sample(json!({"hasher": "Rp62_248", "family": "integers-congruent-mod-p", "members": "merge_with_int(seed, x + k*p) for every k with x + k*p < 2^64"}));
    let _ = <f64m::BaseElement as BaseFut>::SPEC;
    rep.finish(&args.out());
}
