//! C20: public-coin randomness is deterministic and well-formed.
//! History + executable model: random histories of new / reseed / draw / draw_integers /
//! check_leading_zeros are fed to two real coins and to a small model of the documented state
//! machine (seed digest + counter, built only from the `Hasher` trait functions); all three must
//! agree at every step. Element decoding in the model is independent (little-endian integers,
//! accept iff every coefficient is below the modulus).
use vcommon::{guard, hex, json, Args, Report, Rng};
use vwf::{BaseFut, Fut};
use winter_crypto::hashers::{Blake3_192, Blake3_256, Rp62_248, Rp64_256, RpJive64_256, Sha3_256};
use winter_crypto::{DefaultRandomCoin, Digest, ElementHasher, RandomCoin};
use winter_math::fields::{f128, f62, f64 as f64m, CubeExtension, QuadExtension};
use winter_math::FieldElement;

struct Model<H: ElementHasher> {
    seed: H::Digest,
    counter: u64,
}

impl<H: ElementHasher> Model<H> {
    fn new(seed: &[H::BaseField]) -> Self {
        Model { seed: H::hash_elements(seed), counter: 0 }
    }
    fn next(&mut self) -> [u8; 32] {
        self.counter += 1;
        H::merge_with_int(self.seed, self.counter).as_bytes()
    }
    fn reseed(&mut self, d: H::Digest) {
        self.seed = H::merge(&[self.seed, d]);
        self.counter = 0;
    }
    /// coefficients of the next element of degree `deg` over a base field with `eb`-byte
    /// canonical encodings and modulus p
    fn draw(&mut self, deg: usize, eb: usize, p: u128) -> Option<[u128; 3]> {
        for _ in 0..1000 {
            let b = self.next();
            let mut v = [0u128; 3];
            let mut ok = true;
            for i in 0..deg {
                let mut x = 0u128;
                for (k, byte) in b[i * eb..(i + 1) * eb].iter().enumerate() {
                    x |= (*byte as u128) << (8 * k);
                }
                if x >= p {
                    ok = false;
                }
                v[i] = x;
            }
            if ok {
                return Some(v);
            }
        }
        None
    }
    fn draw_integers(&mut self, k: usize, domain: usize, nonce: u64) -> Option<Vec<usize>> {
        self.seed = H::merge_with_int(self.seed, nonce);
        self.counter = 0;
        if k > 1000 {
            // the documented budget is 1000 calls to the PRNG; the state after a failed draw is
            // not documented, histories end there
            return None;
        }
        let mut out = vec![];
        for _ in 0..k {
            let b = self.next();
            let x = u64::from_le_bytes(b[..8].try_into().unwrap());
            out.push((x % domain as u64) as usize);
        }
        Some(out)
    }
    fn leading_zeros(&self, nonce: u64) -> u32 {
        let b = H::merge_with_int(self.seed, nonce).as_bytes();
        let head = u64::from_le_bytes(b[..8].try_into().unwrap());
        let mut n = 0;
        while n < 64 && head >> n & 1 == 0 {
            n += 1;
        }
        n
    }
}

#[derive(Debug, Clone)]
enum Op {
    Reseed(Vec<u8>),
    Draw(usize),
    Ints(usize, u32, u64),
    Pow(u64),
}

fn gen_history(rng: &mut Rng, max_deg: usize) -> Vec<Op> {
    let n = 1 + rng.usize(14);
    (0..n)
        .map(|_| match rng.usize(10) {
            0 | 1 => {
                let n = 1 + rng.usize(40);
                Op::Reseed(rng.bytes(n))
            },
            2..=5 => Op::Draw(1 + rng.usize(max_deg)),
            6 | 7 => {
                let j = match rng.usize(6) {
                    0 => 1 + rng.usize(3) as u32,
                    1 => 63,
                    2 => 32 + rng.usize(9) as u32,
                    _ => 3 + rng.usize(22) as u32,
                };
                let dom: u128 = 1u128 << j;
                let mut k = *rng.pick(&[0usize, 1, 2, 3, 7, 20, 40, 85, 255, 256, 999, 1000, 1001, 1002, 1500]);
                if rng.chance(1, 4) {
                    k = rng.usize(300);
                }
                if k as u128 >= dom {
                    k = (dom - 1) as usize;
                }
                let nonce = match rng.usize(4) {
                    0 => 0,
                    1 => u64::MAX,
                    2 => rng.below(1 << 20),
                    _ => rng.u64(),
                };
                Op::Ints(k, j, nonce)
            },
            _ => Op::Pow(match rng.usize(6) { 0 => 0, 1 => u64::MAX - 3, 2 | 3 => rng.below(4096), _ => rng.u64() }),
        })
        .collect()
}

fn draw_ref<E: Fut, C: RandomCoin<BaseField = E::B>>(c: &mut C) -> Result<Option<[u128; 3]>, vcommon::PanicInfo>
where
    E: FieldElement<BaseField = <E as Fut>::B>,
{
    guard(|| c.draw::<E>().ok().map(|e| e.to_ref()))
}

type CubeFn<H> = fn(&mut DefaultRandomCoin<H>) -> Result<Option<[u128; 3]>, vcommon::PanicInfo>;

#[derive(Debug, Clone, PartialEq)]
enum Obs {
    Unit,
    Elem(Option<[u128; 3]>),
    Ints(Option<Vec<usize>>),
    Zeros(Vec<u32>),
}

fn apply_real<B, H>(c: &mut DefaultRandomCoin<H>, op: &Op, cube_fn: Option<CubeFn<H>>) -> Result<Obs, vcommon::PanicInfo>
where
    B: BaseFut + Fut<B = B>,
    H: ElementHasher<BaseField = B>,
    QuadExtension<B>: Fut<B = B> + FieldElement<BaseField = B>,
{
    match op {
        Op::Reseed(bytes) => guard(|| {
            c.reseed(H::hash(bytes));
            Obs::Unit
        }),
        Op::Draw(1) => draw_ref::<B, _>(c).map(Obs::Elem),
        Op::Draw(2) => draw_ref::<QuadExtension<B>, _>(c).map(Obs::Elem),
        Op::Draw(_) => (cube_fn.expect("cubic draw only generated where supported"))(c).map(Obs::Elem),
        Op::Ints(k, j, nonce) => guard(|| Obs::Ints(c.draw_integers(*k, 1usize << j, *nonce).ok())),
        Op::Pow(nonce) => guard(|| Obs::Zeros((0..8u64).map(|d| c.check_leading_zeros(nonce.wrapping_add(d))).collect())),
    }
}

fn apply_model<H: ElementHasher>(m: &mut Model<H>, op: &Op, eb: usize, p: u128) -> Obs {
    match op {
        Op::Reseed(bytes) => {
            m.reseed(H::hash(bytes));
            Obs::Unit
        },
        Op::Draw(deg) => Obs::Elem(m.draw(*deg, eb, p)),
        Op::Ints(k, j, nonce) => Obs::Ints(m.draw_integers(*k, 1usize << j, *nonce)),
        Op::Pow(nonce) => Obs::Zeros((0..8u64).map(|d| m.leading_zeros(nonce.wrapping_add(d))).collect()),
    }
}

fn run_history<B, H>(rep: &mut Report, name: &str, rng: &mut Rng, case: u64, cube_fn: Option<CubeFn<H>>)
where
    B: BaseFut + Fut<B = B>,
    H: ElementHasher<BaseField = B>,
    QuadExtension<B>: Fut<B = B> + FieldElement<BaseField = B>,
{
    let p = B::SPEC.p;
    let eb = B::ELEMENT_BYTES;
    let seed_len = *rng.pick(&[0usize, 1, 2, 4, 7, 8, 9, 16, 20]);
    let seed: Vec<B> = (0..seed_len).map(|_| vwf::gen_base::<B>(rng).0).collect();
    let hist = gen_history(rng, if cube_fn.is_some() { 3 } else { 2 });
    let ctx = json!({"hasher": name, "field": B::SPEC.name, "case": case, "seed_len": seed_len, "history": format!("{hist:?}").chars().take(400).collect::<String>()});
    rep.case(format!("{name}/{}/{:?}/{hist:?}", B::SPEC.name, seed.iter().map(|s| s.int()).collect::<Vec<_>>()).as_bytes(), true);
    let mut a = DefaultRandomCoin::<H>::new(&seed);
    let mut b = DefaultRandomCoin::<H>::new(&seed);
    let mut m = Model::<H>::new(&seed);
    let mut first_reseed = None;
    for (step, op) in hist.iter().enumerate() {
        rep.evals(1);
        let sctx = json!({"ctx": ctx, "step": step, "op": format!("{op:?}").chars().take(80).collect::<String>()});
        let opname = match op {
            Op::Reseed(_) => "reseed".to_string(),
            Op::Draw(d) => format!("draw^{d}"),
            Op::Ints(..) => "draw_integers".to_string(),
            Op::Pow(_) => "check_leading_zeros".to_string(),
        };
        rep.count(&format!("op:{opname}"));
        let want = apply_model::<H>(&mut m, op, eb, p);
        let (ra, rb) = (apply_real::<B, H>(&mut a, op, cube_fn), apply_real::<B, H>(&mut b, op, cube_fn));
        let (x, y) = match (ra, rb) {
            (Ok(x), Ok(y)) => (x, y),
            (Err(pn), _) | (_, Err(pn)) => {
                rep.violation(&format!("{}|{opname}|{name}", pn.sig()), sctx);
                return;
            },
        };
        if x != y {
            rep.violation(&format!("two-coins-same-history-differ|{opname}|{name}"), sctx);
            return;
        }
        // well-formedness, independent of the model
        match (&x, op) {
            (Obs::Elem(Some(v)), _) if v.iter().any(|c| *c >= p) => {
                rep.violation(&format!("drawn-element-not-canonical|{name}"), sctx.clone());
            },
            (Obs::Ints(Some(v)), Op::Ints(k, j, _)) => {
                rep.count(&format!("draw_integers_k:{}", match *k { 0 => "0", 1 => "1", 2..=254 => "2..254", 255 => "255", 256..=999 => "256..999", 1000 => "1000", _ => ">1000" }));
                if v.len() != *k {
                    let class = if *k == 0 { "zero-requested" } else if *k > 1000 { "more-than-1000-requested" } else { "n-requested" };
                    rep.violation(&format!("draw_integers-wrong-count|{class}"), json!({"s": sctx, "requested": k, "returned": v.len()}));
                    return;
                }
                if v.iter().any(|i| (*i as u128) >= 1u128 << j) {
                    rep.violation(&format!("draw_integers-out-of-domain|{name}"), sctx.clone());
                    return;
                }
            },
            (Obs::Ints(None), Op::Ints(k, ..)) => {
                rep.count(&format!("draw_integers_k:{}", if *k > 1000 { ">1000" } else { "error-within-budget" }));
            },
            _ => {},
        }
        if x != want {
            let show = |o: &Obs| format!("{o:?}").chars().take(160).collect::<String>();
            rep.violation(&format!("{opname}-differs-from-model|{name}"), json!({"s": sctx, "got": show(&x), "model": show(&want)}));
            return;
        }
        if matches!(x, Obs::Ints(None)) {
            rep.count("draw_integers_documented_error");
            break; // state after a failed draw is undocumented
        }
        if let Obs::Zeros(z) = &x {
            for n in z {
                rep.count(&format!("pow_zero_bits:{}", (*n).min(6)));
            }
        }
        if matches!(op, Op::Reseed(_)) && first_reseed.is_none() {
            first_reseed = Some(step);
        }
    }
    // sensitivity to the reseeding digest, on real coins: same history up to the first reseed,
    // a different digest there, then one quadratic draw on each
    if let Some(step) = first_reseed {
        if let Op::Reseed(bytes) = &hist[step] {
            let mut alt = bytes.clone();
            alt[0] ^= 1;
            if H::hash(&alt) != H::hash(bytes) {
                let r = guard(|| {
                    let mut c1 = DefaultRandomCoin::<H>::new(&seed);
                    let mut c2 = DefaultRandomCoin::<H>::new(&seed);
                    for op in &hist[..step] {
                        let _ = apply_real::<B, H>(&mut c1, op, cube_fn);
                        let _ = apply_real::<B, H>(&mut c2, op, cube_fn);
                    }
                    c1.reseed(H::hash(bytes));
                    c2.reseed(H::hash(&alt));
                    (c1.draw::<QuadExtension<B>>().ok().map(|e| e.to_ref()), c2.draw::<QuadExtension<B>>().ok().map(|e| e.to_ref()))
                });
                rep.count("reseed_sensitivity_checks");
                match r {
                    Ok((d1, d2)) if d1 == d2 => rep.violation(&format!("reseed-with-different-digest-same-draw|{name}"), json!({"ctx": ctx, "step": step})),
                    Ok(_) => {},
                    Err(pn) => rep.violation(&format!("{}|reseed-sensitivity|{name}", pn.sig()), json!({"ctx": ctx})),
                }
            }
        }
    }
    if rep.samples.len() < rep.max_samples {
        rep.sample(json!({"hasher": name, "field": B::SPEC.name, "seed_len": seed_len, "history": format!("{hist:?}").chars().take(200).collect::<String>(), "final_model_seed": hex(&m.seed.as_bytes()[..8])}));
    }
}

fn hasher_cases<B, H>(rep: &mut Report, name: &str, seed: u64, n: u64, cube_fn: Option<CubeFn<H>>)
where
    B: BaseFut + Fut<B = B>,
    H: ElementHasher<BaseField = B>,
    QuadExtension<B>: Fut<B = B> + FieldElement<BaseField = B>,
{
    for case in 0..n {
        let mut rng = Rng::for_case(seed, 2000 ^ vcommon::fnv(format!("{name}{}", B::SPEC.name).as_bytes()), case);
        run_history::<B, H>(rep, name, &mut rng, case, cube_fn);
    }
}

pub fn run(args: &Args) {
    let mut rep = Report::new("C20", "c20",
        "random histories (<= 14 ops of reseed / draw base,quadratic,cubic / draw_integers(k in {0,1,2,..,255,999,1000,1001+}, 2^j for j in 1..63, nonce) / check_leading_zeros on 8 consecutive nonces) after new(seed of 0..20 representation-biased elements); 11 hasher x field instantiations; two real coins and the model must agree at every step; reseeding with a different digest must change the next draw; evaluation = one history step; distinct = histories");
    let seed = args.seed();
    let n = args.budget(700, 20000);
    type F64 = f64m::BaseElement;
    type F62 = f62::BaseElement;
    type F128 = f128::BaseElement;
    hasher_cases::<F64, Blake3_256<F64>>(&mut rep, "Blake3_256", seed, n, Some(draw_ref::<CubeExtension<F64>, _>));
    hasher_cases::<F62, Blake3_256<F62>>(&mut rep, "Blake3_256", seed, n, Some(draw_ref::<CubeExtension<F62>, _>));
    hasher_cases::<F128, Blake3_256<F128>>(&mut rep, "Blake3_256", seed, n, None);
    hasher_cases::<F64, Blake3_192<F64>>(&mut rep, "Blake3_192", seed, n, Some(draw_ref::<CubeExtension<F64>, _>));
    hasher_cases::<F128, Blake3_192<F128>>(&mut rep, "Blake3_192", seed, n / 2, None);
    hasher_cases::<F62, Sha3_256<F62>>(&mut rep, "Sha3_256", seed, n, Some(draw_ref::<CubeExtension<F62>, _>));
    hasher_cases::<F64, Sha3_256<F64>>(&mut rep, "Sha3_256", seed, n / 2, Some(draw_ref::<CubeExtension<F64>, _>));
    hasher_cases::<F128, Sha3_256<F128>>(&mut rep, "Sha3_256", seed, n / 2, None);
    hasher_cases::<F64, Rp64_256>(&mut rep, "Rp64_256", seed, n / 6, Some(draw_ref::<CubeExtension<F64>, _>));
    hasher_cases::<F64, RpJive64_256>(&mut rep, "RpJive64_256", seed, n / 6, Some(draw_ref::<CubeExtension<F64>, _>));
    hasher_cases::<F62, Rp62_248>(&mut rep, "Rp62_248", seed, n / 6, Some(draw_ref::<CubeExtension<F62>, _>));
    rep.finish(&args.out());
}
