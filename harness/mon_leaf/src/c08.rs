//! C08: FRI accepts every evaluation vector of a low-degree polynomial (standalone FRI API).
use vcommon::{json, Args, Report, Rng};
use vwf::Fut;
use winter_crypto::hashers::{Blake3_192, Blake3_256, Rp62_248, Rp64_256, RpJive64_256, Sha3_256};
use winter_crypto::ElementHasher;
use winter_fri::FriProof;
use winter_math::fields::{f128, f62, f64 as f64m, CubeExtension, QuadExtension};
use winter_math::FieldElement;
use winter_utils::{Deserializable, Serializable};

use crate::frih::{self, Geo, Pos, Verdict};

fn gen_positions(rng: &mut Rng, geo: &Geo) -> Pos {
    let dom = geo.domain();
    let mode = if dom / geo.folding == 0 { 0 } else { rng.usize(10) };
    match mode {
        0..=4 => {
            let nq = match rng.usize(5) {
                0 => 1,
                1 => 2 + rng.usize(6),
                2 => 255,
                3 => 200 + rng.usize(55),
                _ => 1 + rng.usize(80),
            };
            Pos::Drawn(nq.min(dom - 1), rng.u64())
        },
        5 => Pos::Given(vec![rng.usize(dom); 1 + rng.usize(5)]), // one position repeated
        6 => {
            // positions that fold onto each other at the first layer, and their duplicates
            let row = dom / geo.folding;
            let p = rng.usize(row);
            let mut v: Vec<usize> = (0..geo.folding).map(|c| p + c * row).collect();
            v.push(p);
            rng.shuffle(&mut v);
            Pos::Given(v)
        },
        7 => {
            let k = 1 + rng.usize(40);
            let mut v: Vec<usize> = (0..k).map(|_| rng.usize(dom)).collect();
            v.sort_unstable();
            if rng.bool() {
                v.reverse();
            }
            Pos::Given(v)
        },
        8 => Pos::Given(vec![0, dom - 1, dom / 2, dom / 2 - 1, 0]),
        _ => Pos::Given((0..dom.min(64)).collect()),
    }
}

pub fn one<E, H>(rep: &mut Report, name: &str, rng: &mut Rng, case: u64, max_log_d: u32)
where
    E: Fut + FieldElement,
    H: ElementHasher<BaseField = <E as FieldElement>::BaseField>,
{
    let geo = Geo::gen(rng, max_log_d);
    let bound = geo.d - 1;
    let (deg_class, degree) = match rng.usize(6) {
        0 => ("zero", 0),
        1 => ("one", 1.min(bound)),
        2 => ("half", bound / 2),
        3 | 4 => ("exactly-bound", bound),
        _ => ("random", rng.usize(bound + 1)),
    };
    let coeffs = frih::random_poly::<E>(rng, degree);
    let evals = frih::evaluate(&coeffs, geo.domain());
    let pos = gen_positions(rng, &geo);
    let ctx = json!({"inst": name, "case": case, "geo": format!("{geo:?}"), "degree": degree, "positions": format!("{pos:?}").chars().take(120).collect::<String>()});
    rep.case(format!("{name}/{geo:?}/{deg_class}/{}", matches!(pos, Pos::Drawn(..))).as_bytes(), true);
    rep.count(&format!("folding:{}", geo.folding));
    rep.count(&format!("layers:{}", geo.num_layers()));
    rep.count(&format!("degree:{deg_class}"));
    rep.count(&format!("inst:{name}"));
    let run = match frih::prove::<E, H>(&geo, evals, &pos) {
        Ok(r) => r,
        Err(p) => {
            rep.violation(&format!("{}|fri-prover", p.sig()), ctx);
            return;
        },
    };
    let npos = run.positions.len();
    let ndistinct = run.positions.iter().collect::<std::collections::HashSet<_>>().len();
    if ndistinct < npos {
        rep.count("position_multisets_with_duplicates");
    }
    rep.count(&format!("queries:{}", match npos { 1 => "1", 2..=31 => "2..31", 32..=254 => "32..254", _ => "255+" }));
    match frih::verify_object(&run) {
        Ok(Verdict::Accept) => {},
        Ok(Verdict::Reject(e)) => {
            rep.violation(&format!("low-degree-rejected|{}", e.split(':').next().unwrap_or("?")), json!({"ctx": ctx, "error": e}));
            return;
        },
        Err(p) => {
            rep.violation(&format!("{}|fri-verifier", p.sig()), ctx);
            return;
        },
    }
    // after serialization and deserialization: equal object, no bytes left, same verdict
    let back = FriProof::read_from_bytes(&run.proof_bytes);
    match back {
        Ok(b) => {
            if b != run.proof || b.to_bytes() != run.proof_bytes {
                rep.violation("fri-proof-round-trip-differs", ctx.clone());
            }
        },
        Err(e) => rep.violation("fri-proof-does-not-decode", json!({"ctx": ctx, "error": format!("{e}")})),
    }
    match frih::verify_run(&run, &run.proof_bytes) {
        Ok(Verdict::Accept) => {},
        Ok(Verdict::Reject(e)) => rep.violation(&format!("low-degree-rejected-after-serialization|{}", e.split(':').next().unwrap_or("?")), json!({"ctx": ctx, "error": e})),
        Err(p) => rep.violation(&format!("{}|fri-verifier-after-serialization", p.sig()), ctx.clone()),
    }
    // one prover instance reused for a second polynomial (build_proof leaves the prover ready
    // for the next request): the second proof must verify as well
    if case % 4 == 0 {
        use winter_crypto::{DefaultRandomCoin, MerkleTree};
        use winter_fri::{DefaultProverChannel, FriProver};
        let coeffs2 = frih::random_poly::<E>(rng, bound);
        let evals2 = frih::evaluate(&coeffs2, geo.domain());
        let second = vcommon::guard(|| {
            let mut prover = FriProver::<E, DefaultProverChannel<E, H, DefaultRandomCoin<H>>, H, MerkleTree<H>>::new(geo.options());
            let mut last = None;
            for ev in [run.evaluations.clone(), evals2.clone()] {
                let mut channel = DefaultProverChannel::<E, H, DefaultRandomCoin<H>>::new(geo.domain(), run.positions.len().max(1));
                prover.build_layers(&mut channel, ev.clone());
                let proof = prover.build_proof(&run.positions);
                last = Some((proof, channel.layer_commitments().to_vec(), ev));
            }
            last.unwrap()
        });
        rep.evals(1);
        rep.count("prover_reused_for_second_proof");
        match second {
            Ok((proof, commitments, ev)) => {
                let r2 = frih::Run::<E, H> { geo: geo.clone(), evaluations: ev, positions: run.positions.clone(), commitments, proof_bytes: proof.to_bytes(), proof };
                match frih::verify_object(&r2) {
                    Ok(Verdict::Accept) => {},
                    Ok(Verdict::Reject(e)) => rep.violation(&format!("low-degree-rejected|reused-prover|{}", e.split(':').next().unwrap_or("?")), json!({"ctx": ctx, "error": e})),
                    Err(p) => rep.violation(&format!("{}|fri-verifier-reused-prover", p.sig()), ctx.clone()),
                }
            },
            Err(p) => rep.violation(&format!("{}|fri-prover-reused", p.sig()), ctx.clone()),
        }
    }
    if rep.samples.len() < rep.max_samples {
        rep.sample(json!({"ctx": ctx, "proof_bytes": run.proof_bytes.len(), "layers": geo.num_layers(), "remainder_coefficients": geo.rem_len()}));
    }
}

#[macro_export]
macro_rules! fri_dispatch {
    ($f:ident, $idx:expr, $($args:expr),*) => {{
        type F64 = f64m::BaseElement;
        type F62 = f62::BaseElement;
        type F128 = f128::BaseElement;
        match $idx % 12 {
            0 => $f::<F128, Blake3_256<F128>>($($args),*, "f128/Blake3_256"),
            1 => $f::<QuadExtension<F128>, Sha3_256<F128>>($($args),*, "f128^2/Sha3_256"),
            2 => $f::<F128, Blake3_192<F128>>($($args),*, "f128/Blake3_192"),
            3 => $f::<F64, Blake3_256<F64>>($($args),*, "f64/Blake3_256"),
            4 => $f::<QuadExtension<F64>, Rp64_256>($($args),*, "f64^2/Rp64_256"),
            5 => $f::<CubeExtension<F64>, RpJive64_256>($($args),*, "f64^3/RpJive64_256"),
            6 => $f::<CubeExtension<F64>, Sha3_256<F64>>($($args),*, "f64^3/Sha3_256"),
            7 => $f::<F62, Rp62_248>($($args),*, "f62/Rp62_248"),
            8 => $f::<QuadExtension<F62>, Blake3_192<F62>>($($args),*, "f62^2/Blake3_192"),
            9 => $f::<CubeExtension<F62>, Blake3_256<F62>>($($args),*, "f62^3/Blake3_256"),
            10 => $f::<QuadExtension<F64>, Blake3_256<F64>>($($args),*, "f64^2/Blake3_256"),
            _ => $f::<F64, Rp64_256>($($args),*, "f64/Rp64_256"),
        }
    }};
}

fn one_named<E, H>(rep: &mut Report, rng: &mut Rng, case: u64, max_log_d: u32, name: &str)
where
    E: Fut + FieldElement,
    H: ElementHasher<BaseField = <E as FieldElement>::BaseField>,
{
    one::<E, H>(rep, name, rng, case, max_log_d)
}

pub fn run(args: &Args) {
    let mut rep = Report::new("C08", "c08",
        "random realisable FRI geometries (degree bound + 1 = 2^1..2^10 (thorough 2^13), blowup 2..128, folding 2/4/8/16, remainder degree 2^k-1 <= 255, domain <= 2^17) x 12 field/extension/hasher instantiations x polynomial degree {0, 1, bound/2, exactly bound, random} x query positions (drawn 1..255 with random nonce, one position repeated, positions folding onto each other, sorted / reversed multisets, edges): prover + verifier on the proof object, FriProof round trip (equal, byte-identical), verifier on the decoded proof; every 4th case: the same FriProver instance reused for a second polynomial; distinct = (instantiation, geometry, degree class, position mode)");
    let seed = args.seed();
    let max_log_d = args.u64("maxlogd", if args.thorough() { 13 } else { 10 }) as u32;
    let mut w = vcommon::Worker::new(args, 1500);
    for case in w.from..w.to {
        if !w.start(case, &mut rep) {
            continue;
        }
        let mut rng = Rng::for_case(seed, 800, case);
        fri_dispatch!(one_named, case, &mut rep, &mut rng, case, max_log_d);
    }
    rep.finish(&args.out());
}
