//! C24: the public-coin seed binds the proof context. Pairs of valid contexts that differ in
//! exactly one listed parameter must give different `to_elements` vectors, for every field the
//! vector can be computed in.
use vcommon::{guard, json, Args, Report, Rng};
use winter_air::proof::Context;
use winter_air::{BatchingMethod, FieldExtension, ProofOptions, TraceInfo};
use winter_math::fields::{f128, f62, f64 as f64m};
use winter_math::{StarkField, ToElements};

#[derive(Clone, Debug, PartialEq)]
struct Cx {
    main: usize,
    aux: usize,
    rands: usize,
    log_len: u32,
    meta: Vec<u8>,
    modulus: u8, // 0 f62, 1 f64, 2 f128
    constraints: usize,
    ext: u8,
    blowup: usize,
    folding: usize,
    rem: usize,
    grinding: u32,
    queries: usize,
}

impl Cx {
    fn valid(&self) -> bool {
        self.main >= 1
            && self.main + self.aux <= 255
            && (self.aux > 0 || self.rands == 0)
            && self.rands <= 255
            && (3..=31).contains(&self.log_len)
            && self.meta.len() <= 65535
            && (1..=u32::MAX as usize).contains(&self.constraints)
            && self.ext <= 2
            && self.blowup.is_power_of_two()
            && (2..=128).contains(&self.blowup)
            && ((1u64 << self.log_len) * self.blowup as u64) <= u32::MAX as u64
            && [2, 4, 8, 16].contains(&self.folding)
            && (self.rem + 1).is_power_of_two()
            && self.rem <= 255
            && self.grinding <= 32
            && (1..=255).contains(&self.queries)
    }
    fn build(&self) -> Context {
        let ti = TraceInfo::new_multi_segment(self.main, self.aux, self.rands, 1usize << self.log_len, self.meta.clone());
        let ext = [FieldExtension::None, FieldExtension::Quadratic, FieldExtension::Cubic][self.ext as usize];
        let opts = ProofOptions::new(self.queries, self.blowup, self.grinding, ext, self.folding, self.rem, BatchingMethod::Linear, BatchingMethod::Linear);
        match self.modulus {
            0 => Context::new::<f62::BaseElement>(ti, opts, self.constraints),
            1 => Context::new::<f64m::BaseElement>(ti, opts, self.constraints),
            _ => Context::new::<f128::BaseElement>(ti, opts, self.constraints),
        }
    }
    fn brief(&self) -> String {
        let mut c = self.clone();
        let ml = c.meta.len();
        c.meta.truncate(20);
        format!("{c:?} (meta len {ml})")
    }
}

fn gen_meta(rng: &mut Rng) -> Vec<u8> {
    let len = match rng.usize(8) {
        0 => 0,
        1 => 1 + rng.usize(6),
        2 => 7 * (1 + rng.usize(3)) + rng.usize(3) - 1,
        3 => 15 * (1 + rng.usize(3)) + rng.usize(3) - 1,
        4 => 1 + rng.usize(40),
        5 => 65535 - rng.usize(3),
        6 => 100 + rng.usize(400),
        _ => rng.usize(20),
    };
    let mut m = rng.bytes(len);
    if len > 0 && rng.chance(1, 3) {
        // zero runs at the end / inside
        let k = 1 + rng.usize(len.min(9));
        for b in m.iter_mut().rev().take(k) {
            *b = 0;
        }
    }
    m
}

fn gen_cx(rng: &mut Rng) -> Cx {
    loop {
        let aux = if rng.bool() { 0 } else { *rng.pick(&[1usize, 2, 9, 127, 254]) };
        let c = Cx {
            main: *rng.pick(&[1usize, 2, 3, 20, 100, 127, 128, 200, 254, 255]),
            aux,
            rands: if aux == 0 { 0 } else { *rng.pick(&[0usize, 1, 2, 12, 128, 255]) },
            log_len: *rng.pick(&[3u32, 4, 8, 12, 16, 20, 24, 28]),
            meta: gen_meta(rng),
            modulus: rng.usize(3) as u8,
            constraints: *rng.pick(&[1usize, 2, 128, 255, 256, 65535, 65536, (1 << 24) + 5, u32::MAX as usize - 1, u32::MAX as usize]),
            ext: rng.usize(3) as u8,
            blowup: 1 << (1 + rng.usize(7)),
            folding: 1 << (1 + rng.usize(4)),
            rem: (1 << rng.usize(9)) - 1,
            grinding: *rng.pick(&[0u32, 1, 8, 16, 20, 31, 32]),
            queries: *rng.pick(&[1usize, 2, 27, 30, 127, 128, 254, 255]),
        };
        if c.valid() {
            return c;
        }
    }
}

/// alternatives of `base` that differ in exactly one listed parameter: (parameter, class, context)
fn alternatives(rng: &mut Rng, base: &Cx) -> Vec<(&'static str, String, Cx)> {
    let mut out: Vec<(&'static str, String, Cx)> = vec![];
    let mut push = |name: &'static str, class: String, c: Cx| {
        if c.valid() && c != *base {
            out.push((name, class, c));
        }
    };
    for v in [1usize, 2, base.main + 1, base.main.saturating_sub(1), base.main ^ 1, base.main ^ 0x80, 255 - base.aux, 16, 17, rng.usize(255) + 1] {
        push("main_width", "value".into(), Cx { main: v, ..base.clone() });
    }
    for v in [0usize, 1, base.aux + 1, base.aux.saturating_sub(1), 255 - base.main, base.aux ^ 0x40, rng.usize(255)] {
        let mut c = Cx { aux: v, ..base.clone() };
        if v == 0 {
            // removing the segment forces the random-element count to zero: then two listed
            // parameters differ unless it already was zero
            if base.rands != 0 {
                continue;
            }
            c.rands = 0;
        }
        push("aux_width", "value".into(), c);
    }
    if base.aux > 0 {
        for v in [0usize, 1, 2, base.rands + 1, base.rands.saturating_sub(1), 255, 128, base.rands ^ 0x10, rng.usize(256)] {
            push("aux_rand_elements", "value".into(), Cx { rands: v, ..base.clone() });
        }
    }
    for v in 3u32..=31 {
        push("trace_length", "value".into(), Cx { log_len: v, ..base.clone() });
    }
    for v in 0u8..3 {
        push("field_modulus", "value".into(), Cx { modulus: v, ..base.clone() });
    }
    for v in [1usize, 2, base.constraints + 1, base.constraints.saturating_sub(1), base.constraints ^ 0x100, base.constraints ^ 0x10000, base.constraints ^ (1 << 31), 65536, 65535, u32::MAX as usize, rng.u32() as usize] {
        push("constraint_count", "value".into(), Cx { constraints: v, ..base.clone() });
    }
    for v in 0u8..3 {
        push("field_extension", "value".into(), Cx { ext: v, ..base.clone() });
    }
    for k in 1..=7 {
        push("blowup_factor", "value".into(), Cx { blowup: 1 << k, ..base.clone() });
    }
    for k in 1..=4 {
        push("fri_folding_factor", "value".into(), Cx { folding: 1 << k, ..base.clone() });
    }
    for k in 0..=8 {
        push("fri_remainder_degree", "value".into(), Cx { rem: (1 << k) - 1, ..base.clone() });
    }
    for v in 0..=32 {
        push("grinding_factor", "value".into(), Cx { grinding: v, ..base.clone() });
    }
    for v in [1usize, 2, base.queries + 1, base.queries.saturating_sub(1), 255, 254, 128, base.queries ^ 1, base.queries ^ 0x80, rng.usize(255) + 1] {
        push("num_queries", "value".into(), Cx { queries: v, ..base.clone() });
    }
    // metadata
    let m = &base.meta;
    for k in [1usize, 2, 3, 6, 7, 8, 14, 15, 16] {
        let mut v = m.clone();
        v.extend(std::iter::repeat(0u8).take(k));
        push("trace_meta", format!("zeros-appended"), Cx { meta: v, ..base.clone() });
    }
    if !m.is_empty() {
        push("trace_meta", "last-byte-dropped".into(), Cx { meta: m[..m.len() - 1].to_vec(), ..base.clone() });
        push("trace_meta", "first-byte-dropped".into(), Cx { meta: m[1..].to_vec(), ..base.clone() });
        let mut v = m.clone();
        let i = rng.usize(v.len());
        v[i] ^= 1 << rng.usize(8);
        push("trace_meta", "bit-flipped".into(), Cx { meta: v, ..base.clone() });
        for chunk in [7usize, 15] {
            if m.len() > chunk {
                let mut v = m.clone();
                let at = chunk * (1 + rng.usize(m.len() / chunk));
                v.insert(at.min(v.len()), 0);
                push("trace_meta", "zero-inserted-at-chunk-boundary".into(), Cx { meta: v, ..base.clone() });
            }
        }
        if m.len() >= 2 && m[0] != m[1] {
            let mut v = m.clone();
            v.swap(0, 1);
            push("trace_meta", "bytes-swapped".into(), Cx { meta: v, ..base.clone() });
        }
        push("trace_meta", "emptied".into(), Cx { meta: vec![], ..base.clone() });
    } else {
        push("trace_meta", "one-nonzero-byte".into(), Cx { meta: vec![1 + rng.u8() % 255], ..base.clone() });
    }
    out
}

/// to_elements in field E as canonical integers, or None if the vector cannot be computed for
/// this modulus size (documented precondition of from_bytes_with_padding)
fn elements<E: StarkField>(c: &Context) -> Option<Result<Vec<u128>, vcommon::PanicInfo>>
where
    E::PositiveInteger: Into<u128>,
{
    if c.field_modulus_bytes().len() / 2 >= E::ELEMENT_BYTES {
        return None;
    }
    Some(guard(|| ToElements::<E>::to_elements(c).into_iter().map(|e| e.as_int().into()).collect()))
}

/// with zero padding of chunks and no length, which metadata pairs are forced to collide:
/// equal after stripping trailing zeros inside the last chunk
fn meta_differs_only_by_zeros_inside_last_chunk(a: &[u8], b: &[u8], chunk: usize) -> bool {
    let (s, l) = if a.len() <= b.len() { (a, b) } else { (b, a) };
    if s.is_empty() || l[..s.len()] != *s || l[s.len()..].iter().any(|x| *x != 0) {
        return false;
    }
    // same number of chunks
    s.len().div_ceil(chunk) == l.len().div_ceil(chunk)
}

fn compare<E: StarkField>(rep: &mut Report, ename: &str, param: &str, class: &str, a: &Cx, b: &Cx, ca: &Context, cb: &Context)
where
    E::PositiveInteger: Into<u128>,
{
    let (Some(ea), Some(eb)) = (elements::<E>(ca), elements::<E>(cb)) else {
        rep.count("pairs_skipped_modulus_too_wide_for_element_field");
        return;
    };
    rep.evals(1);
    rep.count(&format!("pairs:{param}"));
    match (ea, eb) {
        (Ok(x), Ok(y)) => {
            if x == y {
                let sig = if param == "trace_meta" && meta_differs_only_by_zeros_inside_last_chunk(&a.meta, &b.meta, E::ELEMENT_BYTES - 1) {
                    "same-seed-elements|trace_meta|trailing-zeros-within-last-chunk".to_string()
                } else {
                    format!("same-seed-elements|{param}|{class}")
                };
                rep.violation(&sig, json!({"element_field": ename, "a": a.brief(), "b": b.brief(), "elements": x.iter().take(12).map(|v| v.to_string()).collect::<Vec<_>>()}));
            }
        },
        (Err(p), _) | (_, Err(p)) => rep.violation(&format!("{}|to_elements|{param}", p.sig()), json!({"element_field": ename, "a": a.brief(), "b": b.brief()})),
    }
}

pub fn run(args: &Args) {
    let mut rep = Report::new("C24", "c24",
        "random valid base contexts (boundary-biased widths, lengths 2^3..2^28, metadata 0..65535 bytes incl. chunk-boundary lengths and zero runs, 3 moduli, all option bounds) x every one-parameter alternative (all trace lengths, blowups, foldings, remainder degrees, grinding factors, extensions, moduli; boundary and bit-flip values for widths / counts / queries; 9 metadata edit classes); Context::to_elements compared in f62, f64 and f128; evaluation = one pair in one element field; distinct = base contexts");
    let seed = args.seed();
    let n = args.budget(300, 6000);
    for case in 0..n {
        let mut rng = Rng::for_case(seed, 2400, case);
        let base = gen_cx(&mut rng);
        rep.distinct_key(format!("{base:?}").as_bytes());
        let cb = match guard(|| base.build()) {
            Ok(c) => c,
            Err(p) => {
                rep.violation(&format!("{}|valid-context-refused", p.sig()), json!({"context": base.brief()}));
                continue;
            },
        };
        for (param, class, alt) in alternatives(&mut rng, &base) {
            let ca = match guard(|| alt.build()) {
                Ok(c) => c,
                Err(p) => {
                    rep.violation(&format!("{}|valid-context-refused", p.sig()), json!({"context": alt.brief()}));
                    continue;
                },
            };
            compare::<f62::BaseElement>(&mut rep, "f62", param, &class, &base, &alt, &cb, &ca);
            compare::<f64m::BaseElement>(&mut rep, "f64", param, &class, &base, &alt, &cb, &ca);
            compare::<f128::BaseElement>(&mut rep, "f128", param, &class, &base, &alt, &cb, &ca);
        }
        if rep.samples.len() < rep.max_samples {
            rep.sample(json!({"base_context": base.brief()}));
        }
    }
    rep.finish(&args.out());
}
