//! C16: Rescue hashers against an independent reference of the Rescue-Prime round function and
//! of the documented sponge / Jive rules.
use vcommon::refarith::{addm, mulm, powm, P62, P64};
use vcommon::{guard, hex, json, Args, Report, Rng};
use vwf::{gen_base, BaseFut};
use winter_crypto::hashers::{Rp62_248, Rp64_256, RpJive64_256};
use winter_crypto::{Digest, ElementHasher, Hasher};
use winter_math::fields::{f62, f64 as f64m, CubeExtension, QuadExtension};


type B64 = f64m::BaseElement;
type B62 = f62::BaseElement;

/// reference parameters of one Rescue instance; constants are canonical integers
struct Spec {
    name: &'static str,
    p: u128,
    alpha: u128,
    width: usize,
    rate: std::ops::Range<usize>,
    /// index of the capacity element that carries the length / flag
    cap_idx: usize,
    digest: std::ops::Range<usize>,
    mds: Vec<Vec<u128>>,
    ark1: Vec<Vec<u128>>,
    ark2: Vec<Vec<u128>>,
}

/// modular inverse of a mod m by extended Euclid (i128 is enough: m < 2^64)
fn inv_mod(a: u128, m: u128) -> u128 {
    let (mut old_r, mut r) = (a as i128, m as i128);
    let (mut old_s, mut s) = (1i128, 0i128);
    while r != 0 {
        let q = old_r / r;
        (old_r, r) = (r, old_r - q * r);
        (old_s, s) = (s, old_s - q * s);
    }
    assert_eq!(old_r, 1);
    old_s.rem_euclid(m as i128) as u128
}

impl Spec {
    fn inv_alpha(&self) -> u128 {
        inv_mod(self.alpha, self.p - 1)
    }
    fn mds_mul(&self, s: &[u128]) -> Vec<u128> {
        (0..self.width)
            .map(|i| (0..self.width).fold(0u128, |acc, j| addm(acc, mulm(self.mds[i][j], s[j], self.p), self.p)))
            .collect()
    }
    fn permute(&self, state: &mut Vec<u128>) {
        let ia = self.inv_alpha();
        for r in 0..7 {
            for x in state.iter_mut() {
                *x = powm(*x, self.alpha, self.p);
            }
            *state = self.mds_mul(state);
            for (x, k) in state.iter_mut().zip(&self.ark1[r]) {
                *x = addm(*x, *k, self.p);
            }
            for x in state.iter_mut() {
                *x = powm(*x, ia, self.p);
            }
            *state = self.mds_mul(state);
            for (x, k) in state.iter_mut().zip(&self.ark2[r]) {
                *x = addm(*x, *k, self.p);
            }
        }
    }
    /// sponge over a list of elements with the count in the capacity (Rp64_256 / Rp62_248)
    fn sponge_count(&self, elems: &[u128]) -> Vec<u128> {
        let mut st = vec![0u128; self.width];
        st[self.cap_idx] = elems.len() as u128 % self.p;
        let rw = self.rate.len();
        let mut i = 0;
        for e in elems {
            st[self.rate.start + i] = addm(st[self.rate.start + i], *e, self.p);
            i += 1;
            if i == rw {
                self.permute(&mut st);
                i = 0;
            }
        }
        if i > 0 {
            self.permute(&mut st);
        }
        st[self.digest.clone()].to_vec()
    }
    /// Jive variant: capacity flag 1 iff length not a multiple of the rate; the final partial
    /// block is completed by setting the next rate element to 1 and the remaining ones to 0
    fn sponge_jive(&self, elems: &[u128]) -> Vec<u128> {
        let mut st = vec![0u128; self.width];
        let rw = self.rate.len();
        if elems.len() % rw != 0 {
            st[self.cap_idx] = 1;
        }
        let mut i = 0;
        for e in elems {
            st[self.rate.start + i] = addm(st[self.rate.start + i], *e, self.p);
            i += 1;
            if i == rw {
                self.permute(&mut st);
                i = 0;
            }
        }
        if i > 0 {
            st[self.rate.start + i] = 1;
            i += 1;
            while i != rw {
                st[self.rate.start + i] = 0;
                i += 1;
            }
            self.permute(&mut st);
        }
        st[self.digest.clone()].to_vec()
    }
    /// bytes -> 7-byte little-endian chunks, 0x01 appended to the last chunk
    fn bytes_to_elems(bytes: &[u8]) -> Vec<u128> {
        let n = bytes.len().div_ceil(7);
        bytes
            .chunks(7)
            .enumerate()
            .map(|(k, c)| {
                let mut buf = [0u8; 8];
                buf[..c.len()].copy_from_slice(c);
                if k == n - 1 {
                    buf[c.len()] = 1;
                }
                u64::from_le_bytes(buf) as u128
            })
            .collect()
    }
}

fn ints<B: BaseFut, const W: usize, const R: usize>(m: &[[B; W]; R]) -> Vec<Vec<u128>> {
    m.iter().map(|row| row.iter().map(|x| x.int()).collect()).collect()
}

fn spec_rp64() -> Spec {
    Spec { name: "Rp64_256", p: P64, alpha: 7, width: 12, rate: 4..12, cap_idx: 0, digest: 4..8,
        mds: ints(&Rp64_256::MDS), ark1: ints(&Rp64_256::ARK1), ark2: ints(&Rp64_256::ARK2) }
}
fn spec_jive() -> Spec {
    Spec { name: "RpJive64_256", p: P64, alpha: 7, width: 8, rate: 4..8, cap_idx: 0, digest: 4..8,
        mds: ints(&RpJive64_256::MDS), ark1: ints(&RpJive64_256::ARK1), ark2: ints(&RpJive64_256::ARK2) }
}
fn spec_rp62() -> Spec {
    Spec { name: "Rp62_248", p: P62, alpha: 3, width: 12, rate: 0..8, cap_idx: 11, digest: 0..4,
        mds: ints(&Rp62_248::VERIF_MDS), ark1: ints(&Rp62_248::VERIF_ARK1), ark2: ints(&Rp62_248::VERIF_ARK2) }
}

/// golden FNV-1a digests of (MDS, ARK1, ARK2) of the three instances as found on the pinned tree;
/// a changed constant is a change of the hash function even if it stays self-consistent
const GOLDEN: [(&str, u64); 3] = [("Rp64_256", 0x88a9842fe40cfb6c), ("RpJive64_256", 0x266b06a6297efeb5), ("Rp62_248", 0xf213ee62e33ae11e)];

fn constants_digest(s: &Spec) -> u64 {
    let mut bytes = vec![];
    for m in [&s.mds, &s.ark1, &s.ark2] {
        for row in m.iter() {
            for x in row {
                bytes.extend_from_slice(&x.to_le_bytes());
            }
        }
    }
    vcommon::fnv(&bytes)
}

fn structural(rep: &mut Report, s: &Spec, inv_mds: Option<Vec<Vec<u128>>>) {
    let w = s.width;
    rep.evals(1);
    // the two f64 instances use circulant matrices (row i is row 0 rotated right by i); the
    // f62 instance uses a non-circulant MDS, pinned by the golden digest only
    for i in 0..if inv_mds.is_some() { w } else { 0 } {
        for j in 0..w {
            if s.mds[i][j] != s.mds[0][(j + w - i) % w] {
                rep.violation(&format!("mds-not-circulant|{}", s.name), json!({"i": i, "j": j}));
                return;
            }
        }
    }
    if let Some(inv) = inv_mds {
        for i in 0..w {
            for j in 0..w {
                let v = (0..w).fold(0u128, |acc, k| addm(acc, mulm(s.mds[i][k], inv[k][j], s.p), s.p));
                if v != (i == j) as u128 {
                    rep.violation(&format!("mds-times-inverse-not-identity|{}", s.name), json!({"i": i, "j": j}));
                    return;
                }
            }
        }
    }
    // alpha must be invertible mod p-1 and the exponents mutually inverse on samples
    let ia = s.inv_alpha();
    for x in [2u128, 3, s.p - 1, 0xdeadbeef] {
        if powm(powm(x, s.alpha, s.p), ia, s.p) != x {
            rep.inconclusive("reference-sbox-selfcheck-failed", json!({"hasher": s.name}));
        }
    }
}

fn state_gen<B: BaseFut>(rng: &mut Rng, w: usize) -> (Vec<B>, Vec<u128>) {
    let mode = rng.below(6);
    (0..w)
        .map(|i| match mode {
            0 => (B::ZERO, 0),
            1 => {
                // 32-bit limb patterns that stress the split-limb frequency-domain MDS
                let pats = [0xffffffff_00000000u128, 0x00000000_ffffffff, B::SPEC.p - 1, 0xffffffff, 0x80000000_80000000, 1u128 << 63, (1u128 << 63) - 1];
                let v = *rng.pick(&pats) % B::SPEC.p;
                (B::from_int(v), v)
            },
            2 if i % 2 == 0 => (B::ZERO, 0),
            _ => gen_base::<B>(rng),
        })
        .unzip()
}

fn perm_cases(rep: &mut Report, seed: u64, n: u64) {
    let s64 = spec_rp64();
    let sj = spec_jive();
    let s62 = spec_rp62();
    for case in 0..n {
        let mut rng = Rng::for_case(seed, 1600, case);
        // Rp64_256
        let (st, sv) = state_gen::<B64>(&mut rng, 12);
        let mut a: [B64; 12] = st.clone().try_into().unwrap();
        let mut want = sv.clone();
        s64.permute(&mut want);
        rep.case(&[b"p64".as_slice(), &sv.iter().flat_map(|x| x.to_le_bytes()).collect::<Vec<u8>>()].concat(), sv.iter().any(|x| *x != 0));
        match guard(|| Rp64_256::apply_permutation(&mut a)) {
            Err(p) => rep.violation(&format!("{}|Rp64_256|apply_permutation", p.sig()), json!({"state": format!("{sv:?}")})),
            Ok(()) => {
                let got: Vec<u128> = a.iter().map(|x| x.int()).collect();
                if got != want {
                    rep.violation("permutation-differs-from-reference|Rp64_256", json!({"case": case, "state": format!("{sv:?}"), "state_raw": format!("{:x?}", st.iter().map(|x| x.raw()).collect::<Vec<_>>()), "got": format!("{got:?}"), "reference": format!("{want:?}")}));
                }
            },
        }
        if case == 0 {
            rep.sample(json!({"hasher": "Rp64_256", "state": format!("{sv:?}"), "permuted": format!("{want:?}")}));
        }
        // Jive (8 wide)
        let (st, sv) = state_gen::<B64>(&mut rng, 8);
        let mut a: [B64; 8] = st.clone().try_into().unwrap();
        let mut want = sv.clone();
        sj.permute(&mut want);
        rep.case(&[b"pj".as_slice(), &sv.iter().flat_map(|x| x.to_le_bytes()).collect::<Vec<u8>>()].concat(), true);
        match guard(|| RpJive64_256::apply_permutation(&mut a)) {
            Err(p) => rep.violation(&format!("{}|RpJive64_256|apply_permutation", p.sig()), json!({"state": format!("{sv:?}")})),
            Ok(()) => {
                let got: Vec<u128> = a.iter().map(|x| x.int()).collect();
                if got != want {
                    rep.violation("permutation-differs-from-reference|RpJive64_256", json!({"case": case, "state": format!("{sv:?}"), "got": format!("{got:?}"), "reference": format!("{want:?}")}));
                }
            },
        }
        // Rp62_248 through the hook
        let (st, sv) = state_gen::<B62>(&mut rng, 12);
        let mut a: [B62; 12] = st.clone().try_into().unwrap();
        let mut want = sv.clone();
        s62.permute(&mut want);
        rep.case(&[b"p62".as_slice(), &sv.iter().flat_map(|x| x.to_le_bytes()).collect::<Vec<u8>>()].concat(), true);
        match guard(|| Rp62_248::verif_apply_permutation(&mut a)) {
            Err(p) => rep.violation(&format!("{}|Rp62_248|apply_permutation", p.sig()), json!({"state": format!("{sv:?}")})),
            Ok(()) => {
                let got: Vec<u128> = a.iter().map(|x| x.int()).collect();
                if got != want {
                    rep.violation("permutation-differs-from-reference|Rp62_248", json!({"case": case, "state": format!("{sv:?}"), "state_raw": format!("{:x?}", st.iter().map(|x| x.raw()).collect::<Vec<_>>()), "got": format!("{got:?}"), "reference": format!("{want:?}")}));
                }
            },
        }
    }
}

/// states that drive one MDS accumulator of the first round to within 2^40 of a multiple of 2^64
/// (where the split-limb, frequency-domain MDS has to propagate a carry): a single non-zero lane j
/// holding y with y^alpha = x and m_ij * x = k * 2^64 - t for a small t
fn mds_carry_cases(rep: &mut Report) {
    let s64 = spec_rp64();
    let sj = spec_jive();
    for (which, sp) in [(0usize, &s64), (1usize, &sj)] {
        let w = sp.width;
        let ia = sp.inv_alpha();
        for j in 0..w {
            for i in 0..w {
                let m = sp.mds[i][j];
                if m < 3 {
                    continue;
                }
                for k in 2..m.min(9) {
                    for t in [1u128, 2, 1 << 20, 1 << 39, (1 << 40) - 1] {
                        let x = ((k << 64) - t) / m;
                        if x >= sp.p {
                            continue;
                        }
                        let y = powm(x, ia, sp.p);
                        let mut sv = vec![0u128; w];
                        sv[j] = y;
                        let mut want = sv.clone();
                        sp.permute(&mut want);
                        rep.case(&[b"carry".as_slice(), &[which as u8], &sv.iter().flat_map(|v| v.to_le_bytes()).collect::<Vec<u8>>()].concat(), true);
                        rep.count("mds_carry_boundary_states");
                        let got: Result<Vec<u128>, vcommon::PanicInfo> = if which == 0 {
                            let mut a: [B64; 12] = sv.iter().map(|v| B64::from_int(*v)).collect::<Vec<_>>().try_into().unwrap();
                            guard(|| { Rp64_256::apply_permutation(&mut a); a.iter().map(|e| e.int()).collect() })
                        } else {
                            let mut a: [B64; 8] = sv.iter().map(|v| B64::from_int(*v)).collect::<Vec<_>>().try_into().unwrap();
                            guard(|| { RpJive64_256::apply_permutation(&mut a); a.iter().map(|e| e.int()).collect() })
                        };
                        let name = if which == 0 { "Rp64_256" } else { "RpJive64_256" };
                        match got {
                            Ok(g) if g == want => {},
                            Ok(g) => rep.violation(&format!("permutation-differs-from-reference|{name}"), json!({"family": "mds-carry-boundary", "lane": j, "row": i, "k": k.to_string(), "t": t.to_string(), "state": format!("{sv:?}"), "got": format!("{g:?}"), "reference": format!("{want:?}")})),
                            Err(p) => rep.violation(&format!("{}|{name}|apply_permutation", p.sig()), json!({"state": format!("{sv:?}")})),
                        }
                    }
                }
            }
        }
    }
}

fn digest_ints<D: Digest>(d: &D, nbytes: usize) -> Vec<u128> {
    // element digests serialise as 4 canonical little-endian 8-byte integers (Rp62: 31 bytes
    // packed; handled by the caller through as_elements)
    let b = d.as_bytes();
    let _ = nbytes;
    (0..4).map(|i| u64::from_le_bytes(b[8 * i..8 * i + 8].try_into().unwrap()) as u128).collect()
}

fn cmp(rep: &mut Report, hasher: &str, op: &str, got: Result<Vec<u128>, vcommon::PanicInfo>, want: &[u128], detail: vcommon::Value) {
    rep.evals(1);
    rep.count(&format!("op:{hasher}:{op}"));
    match got {
        Err(p) => rep.violation(&format!("{}|{hasher}|{op}", p.sig()), detail),
        Ok(g) => {
            if g != want {
                rep.violation(&format!("digest-differs-from-reference|{hasher}|{op}"), json!({"detail": detail, "got": format!("{g:?}"), "reference": format!("{want:?}")}));
            }
        },
    }
}

fn special_u64(rng: &mut Rng, p: u128, k: u64) -> u64 {
    match k % 10 {
        0 => 0,
        1 => (p - 1) as u64,
        2 => p as u64,
        3 => (p + 1) as u64,
        4 => u64::MAX,
        5 => ((2 * p) as u64).wrapping_sub(1),
        6 => (2 * p).min(u64::MAX as u128) as u64,
        7 => (3 * p).min(u64::MAX as u128) as u64,
        8 => (p as u64).wrapping_add(rng.below(1 << 20)),
        _ => rng.u64(),
    }
}

fn sponge_cases(rep: &mut Report, seed: u64, n: u64) {
    let s64 = spec_rp64();
    let sj = spec_jive();
    let s62 = spec_rp62();
    for case in 0..n {
        let mut rng = Rng::for_case(seed, 1601, case);
        // ---- byte strings
        let len = match case % 6 { 0 => rng.usize(8), 1 => 48 + rng.usize(20), 2 => 7 * rng.usize(20), 3 => rng.usize(140), 4 => 55 + rng.usize(4), _ => rng.usize(400) };
        let bytes = rng.bytes(len);
        rep.distinct_key(&[b"bytes".as_slice(), &bytes[..bytes.len().min(32)], &(len as u64).to_le_bytes()].concat());
        if !bytes.is_empty() {
            let el = Spec::bytes_to_elems(&bytes);
            let d = json!({"len": len, "bytes_head": hex(&bytes[..len.min(24)])});
            cmp(rep, "Rp64_256", "hash", guard(|| digest_ints(&Rp64_256::hash(&bytes), 32)), &s64.sponge_count(&el), d.clone());
            cmp(rep, "RpJive64_256", "hash", guard(|| digest_ints(&RpJive64_256::hash(&bytes), 32)), &sj.sponge_jive(&el), d.clone());
            cmp(rep, "Rp62_248", "hash", guard(|| Rp62_248::hash(&bytes).as_elements().iter().map(|x| x.int()).collect()), &s62.sponge_count(&el), d);
        }
        // ---- element lists (base, quadratic, cubic)
        let ne = match case % 5 { 0 => rng.usize(5), 1 => 7 + rng.usize(3), 2 => 8 * (1 + rng.usize(3)), 3 => 4 * rng.usize(6), _ => rng.usize(40) };
        let (e64, v64): (Vec<B64>, Vec<u128>) = (0..ne).map(|_| gen_base::<B64>(&mut rng)).unzip();
        let (e62, v62): (Vec<B62>, Vec<u128>) = (0..ne).map(|_| gen_base::<B62>(&mut rng)).unzip();
        let d = json!({"elements": ne});
        cmp(rep, "Rp64_256", "hash_elements", guard(|| digest_ints(&Rp64_256::hash_elements(&e64), 32)), &s64.sponge_count(&v64), d.clone());
        cmp(rep, "RpJive64_256", "hash_elements", guard(|| digest_ints(&RpJive64_256::hash_elements(&e64), 32)), &sj.sponge_jive(&v64), d.clone());
        cmp(rep, "Rp62_248", "hash_elements", guard(|| Rp62_248::hash_elements(&e62).as_elements().iter().map(|x| x.int()).collect()), &s62.sponge_count(&v62), d.clone());
        // extension elements are hashed as their base coefficients in order
        let nq = ne / 2;
        let q64: Vec<QuadExtension<B64>> = (0..nq).map(|i| QuadExtension::new(e64[2 * i], e64[2 * i + 1])).collect();
        cmp(rep, "Rp64_256", "hash_elements<quad>", guard(|| digest_ints(&Rp64_256::hash_elements(&q64), 32)), &s64.sponge_count(&v64[..2 * nq]), d.clone());
        cmp(rep, "RpJive64_256", "hash_elements<quad>", guard(|| digest_ints(&RpJive64_256::hash_elements(&q64), 32)), &sj.sponge_jive(&v64[..2 * nq]), d.clone());
        let nc = ne / 3;
        let c64: Vec<CubeExtension<B64>> = (0..nc).map(|i| CubeExtension::new(e64[3 * i], e64[3 * i + 1], e64[3 * i + 2])).collect();
        cmp(rep, "Rp64_256", "hash_elements<cube>", guard(|| digest_ints(&Rp64_256::hash_elements(&c64), 32)), &s64.sponge_count(&v64[..3 * nc]), d.clone());
        cmp(rep, "RpJive64_256", "hash_elements<cube>", guard(|| digest_ints(&RpJive64_256::hash_elements(&c64), 32)), &sj.sponge_jive(&v64[..3 * nc]), d.clone());
        let c62: Vec<CubeExtension<B62>> = (0..nc).map(|i| CubeExtension::new(e62[3 * i], e62[3 * i + 1], e62[3 * i + 2])).collect();
        cmp(rep, "Rp62_248", "hash_elements<cube>", guard(|| Rp62_248::hash_elements(&c62).as_elements().iter().map(|x| x.int()).collect()), &s62.sponge_count(&v62[..3 * nc]), d.clone());

        // ---- digests: merge, merge_many, merge_with_int
        let nd = match case % 4 { 0 => 2, 1 => 1 + rng.usize(3), _ => rng.usize(9) };
        let mk64 = |rng: &mut Rng| -> ([B64; 4], Vec<u128>) {
            let (e, v): (Vec<B64>, Vec<u128>) = (0..4).map(|_| gen_base::<B64>(rng)).unzip();
            (e.try_into().unwrap(), v)
        };
        let mut ds64 = vec![];
        let mut dj = vec![];
        let mut flat64: Vec<u128> = vec![];
        for _ in 0..nd {
            let (e, v) = mk64(&mut rng);
            ds64.push(<<Rp64_256 as Hasher>::Digest>::new(e));
            dj.push(<<RpJive64_256 as Hasher>::Digest>::new(e));
            flat64.extend(v);
        }
        let mut ds62 = vec![];
        let mut flat62: Vec<u128> = vec![];
        for _ in 0..nd {
            let (e, v): (Vec<B62>, Vec<u128>) = (0..4).map(|_| gen_base::<B62>(&mut rng)).unzip();
            ds62.push(<<Rp62_248 as Hasher>::Digest>::new(e.try_into().unwrap()));
            flat62.extend(v);
        }
        let d = json!({"digests": nd});
        cmp(rep, "Rp64_256", "merge_many", guard(|| digest_ints(&Rp64_256::merge_many(&ds64), 32)), &s64.sponge_count(&flat64), d.clone());
        cmp(rep, "RpJive64_256", "merge_many", guard(|| digest_ints(&RpJive64_256::merge_many(&dj), 32)), &sj.sponge_jive(&flat64), d.clone());
        cmp(rep, "Rp62_248", "merge_many", guard(|| Rp62_248::merge_many(&ds62).as_elements().iter().map(|x| x.int()).collect()), &s62.sponge_count(&flat62), d.clone());
        if nd >= 2 {
            // sponge variants: merge == hash of the 8 elements
            cmp(rep, "Rp64_256", "merge", guard(|| digest_ints(&Rp64_256::merge(&[ds64[0], ds64[1]]), 32)), &s64.sponge_count(&flat64[..8]), d.clone());
            cmp(rep, "Rp62_248", "merge", guard(|| Rp62_248::merge(&[ds62[0], ds62[1]]).as_elements().iter().map(|x| x.int()).collect()), &s62.sponge_count(&flat62[..8]), d.clone());
            // Jive: permute the 8 input elements, add halves of input and output
            let mut st = flat64[..8].to_vec();
            sj.permute(&mut st);
            let want: Vec<u128> = (0..4).map(|i| addm(addm(flat64[i], flat64[4 + i], P64), addm(st[i], st[4 + i], P64), P64)).collect();
            cmp(rep, "RpJive64_256", "merge", guard(|| digest_ints(&RpJive64_256::merge(&[dj[0], dj[1]]), 32)), &want, d.clone());
        }
        if nd >= 1 {
            let v = special_u64(&mut rng, P64, case);
            // documented: one element if value < p else (value mod p, value div p)
            let mut el = flat64[..4].to_vec();
            el.push(v as u128 % P64);
            if v as u128 >= P64 {
                el.push(v as u128 / P64);
            }
            cmp(rep, "Rp64_256", "merge_with_int", guard(|| digest_ints(&Rp64_256::merge_with_int(ds64[0], v), 32)), &s64.sponge_count(&el), json!({"value": v}));
            // Jive: state = seed(4) | value | [hi] | 0.. | count in the last element
            let mut st = vec![0u128; 8];
            st[..4].copy_from_slice(&flat64[..4]);
            st[4] = v as u128 % P64;
            if (v as u128) < P64 {
                st[7] = 5;
            } else {
                st[5] = v as u128 / P64;
                st[7] = 6;
            }
            let init = st.clone();
            sj.permute(&mut st);
            let want: Vec<u128> = (0..4).map(|i| addm(addm(init[i], init[4 + i], P64), addm(st[i], st[4 + i], P64), P64)).collect();
            cmp(rep, "RpJive64_256", "merge_with_int", guard(|| digest_ints(&RpJive64_256::merge_with_int(dj[0], v), 32)), &want, json!({"value": v}));
            let v = special_u64(&mut rng, P62, case);
            let mut el = flat62[..4].to_vec();
            el.push(v as u128 % P62);
            if v as u128 >= P62 {
                el.push(v as u128 / P62);
            }
            cmp(rep, "Rp62_248", "merge_with_int", guard(|| Rp62_248::merge_with_int(ds62[0], v).as_elements().iter().map(|x| x.int()).collect()), &s62.sponge_count(&el), json!({"value": v}));
        }
    }
}

pub fn run(args: &Args) {
    let mut rep = Report::new("C16", "c16",
        "permutation on boundary-biased states (all-zero, 32-bit limb patterns, sparse, representation-biased, and single-lane states crafted so that a first-round MDS accumulator lands within 2^40 below a multiple of 2^64) for Rp64_256, RpJive64_256 and Rp62_248 (through the verif hook) vs a reference round function (x^alpha, x^(alpha^-1 mod p-1) by plain modpow, MDS as matrix product, constants read back from the code and pinned by a golden digest); hash / hash_elements (base, quadratic, cubic) / merge / merge_many / merge_with_int vs the documented sponge, padding, capacity and Jive rules; distinct = distinct states / inputs");
    let seed = args.seed();
    let n = args.budget(1500, 120_000);
    let specs = [spec_rp64(), spec_jive(), spec_rp62()];
    structural(&mut rep, &specs[0], Some(ints(&Rp64_256::INV_MDS)));
    structural(&mut rep, &specs[1], Some(ints(&RpJive64_256::INV_MDS)));
    structural(&mut rep, &specs[2], None);
    let mut golden = std::collections::BTreeMap::new();
    for s in &specs {
        let g = constants_digest(s);
        golden.insert(s.name.to_string(), json!(format!("{g:016x}")));
        let want = GOLDEN.iter().find(|x| x.0 == s.name).map(|x| x.1);
        if want != Some(g) {
            rep.violation(&format!("round-constants-or-mds-changed|{}", s.name), json!({"digest": format!("{g:016x}"), "golden": want.map(|w| format!("{w:016x}"))}));
        }
    }
    rep.extra.insert("constants_digests".into(), json!(golden));
    mds_carry_cases(&mut rep);
    perm_cases(&mut rep, seed, n);
    sponge_cases(&mut rep, seed, n / 3);
    rep.finish(&args.out());
}
