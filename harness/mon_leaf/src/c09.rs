//! C09: FRI rejects far-from-low-degree data and inconsistent openings (standalone FRI API).
//! Every attack starts from an honest prover run; edits are made on the serialized proof with
//! knowledge of the replayed transcript (alphas, folded positions), as an adaptive prover would.
use vcommon::{json, Args, Report, Rng, Value, Worker};
use vwf::Fut;
use winter_crypto::hashers::{Blake3_192, Blake3_256, Rp62_248, Rp64_256, RpJive64_256, Sha3_256};
use winter_crypto::ElementHasher;
use winter_math::fields::{f128, f62, f64 as f64m, CubeExtension, QuadExtension};
use winter_fri::folding::apply_drp;
use winter_math::{fft, FieldElement, StarkField};
use winter_utils::transpose_slice;

use crate::fri_attacks::{attacks, uniform, Attack};
use crate::frih::{self, Geo, Pos, Run, Verdict};

/// set / clear the verifier's check-skipping failpoints (hook in winter-utils, cfg(winterfell_verif))
pub fn set_failpoints(mask: u32) {
    #[cfg(winterfell_verif)]
    winter_utils::verif::set_skip_mask(mask);
    #[cfg(not(winterfell_verif))]
    let _ = mask;
}
pub const HOOKS: bool = cfg!(winterfell_verif);

fn judge_attack<E, H>(rep: &mut Report, ctx: &Value, run: &Run<E, H>, a: &Attack)
where
    E: Fut + FieldElement,
    H: ElementHasher<BaseField = <E as FieldElement>::BaseField>,
{
    rep.evals(1);
    if a.validate_with != 0 && HOOKS {
        set_failpoints(a.validate_with);
        let r = frih::verify_run(run, &a.bytes);
        set_failpoints(0);
        match r {
            Ok(Verdict::Accept) => rep.count(&format!("validated_with_check_skipped:{}", a.kind)),
            other => {
                rep.inconclusive(&format!("attack-not-consistent-with-other-checks|{}", a.kind), json!({"ctx": ctx, "detail": a.detail, "with_check_skipped": format!("{other:?}").chars().take(120).collect::<String>()}));
                return;
            },
        }
    }
    match frih::verify_run(run, &a.bytes) {
        Ok(Verdict::Reject(e)) => {
            let step = e.split('(').next().unwrap_or("?").to_string();
            rep.count(&format!("rejected:{}:{}", a.kind, step));
        },
        Ok(Verdict::Accept) => rep.violation(&format!("accepted|{}", a.kind), json!({"ctx": ctx, "detail": a.detail})),
        Err(p) => rep.violation(&format!("{}|{}", p.sig(), a.kind), json!({"ctx": ctx, "detail": a.detail})),
    }
}


/// the last-layer evaluations an honest commit phase reaches from `evals` with these alphas (the
/// adversary's own folding; same routine and offset convention as the prover)
fn fold_all<E: FieldElement>(geo: &Geo, evals: &[E], alphas: &[E]) -> Vec<E> {
    let off = <E::BaseField as StarkField>::GENERATOR;
    let mut v = evals.to_vec();
    for a in alphas.iter().take(geo.num_layers()) {
        v = match geo.folding {
            2 => apply_drp::<_, _, 2>(&transpose_slice::<_, 2>(&v), off, *a),
            4 => apply_drp::<_, _, 4>(&transpose_slice::<_, 4>(&v), off, *a),
            8 => apply_drp::<_, _, 8>(&transpose_slice::<_, 8>(&v), off, *a),
            _ => apply_drp::<_, _, 16>(&transpose_slice::<_, 16>(&v), off, *a),
        };
    }
    v
}

/// (e) a prover that does not truncate: polynomial of degree in (bound, 2*bound + 1], honest layer
/// commitments, and as remainder the *full* interpolant of the last layer (more coefficients than
/// the bound allows) with its own commitment. Every check except the remainder degree check
/// passes; where the geometry allows it this is validated by verifying the same proof under the
/// geometry (2d, blowup/2), which has the same domain and must accept.
fn overlong_remainder<E, H>(rep: &mut Report, rng: &mut Rng, ctx: &Value, geo: &Geo, pos: &Pos)
where
    E: Fut + FieldElement,
    H: ElementHasher<BaseField = <E as FieldElement>::BaseField>,
{
    let (d, dom) = (geo.d, geo.domain());
    if geo.blowup < 4 || 2 * d > dom {
        rep.count("overlong-remainder:not-applicable(blowup<4)");
        return;
    }
    let f_all = geo.folding.pow(geo.num_layers() as u32);
    let last_dom = dom / f_all;
    // the channel only takes power-of-two remainder lengths: the adversary sends 2 * rem_len
    // coefficients (zero-padded at the high end when the degree needs fewer)
    let rem_len = geo.rem_len();
    let want = 2 * rem_len;
    if want > last_dom {
        return;
    }
    let deg = match rng.usize(4) {
        0 => d,
        1 => 2 * d - 1,
        _ => d + rng.usize(d),
    };
    let coeffs: Vec<E> = (0..=deg).map(|_| uniform::<E>(rng)).collect();
    if coeffs[deg] == E::ZERO {
        return;
    }
    let evals = frih::evaluate(&coeffs, dom);
    let run = match frih::prove::<E, H>(geo, evals.clone(), pos) {
        Ok(r) => r,
        Err(p) => {
            rep.count(&format!("prover_refused_non_low_degree:{}", p.masked()));
            return;
        },
    };
    let alphas: Vec<E> = frih::replay_alphas::<E, H>(&run.commitments);
    let mut last = fold_all(geo, &evals, &alphas);
    let inv = fft::get_inv_twiddles::<<E as FieldElement>::BaseField>(last.len());
    fft::interpolate_poly_with_offset(&mut last, &inv, <<E as FieldElement>::BaseField as StarkField>::GENERATOR);
    if last[want..].iter().any(|c| *c != E::ZERO) {
        rep.inconclusive("overlong-remainder: adversary's folding left higher coefficients (harness)", ctx.clone());
        return;
    }
    let rem: Vec<E> = last[..want].iter().rev().copied().collect();
    let bytes = frih::with_remainder(&run.proof_bytes, &rem);
    let mut cs = run.commitments.clone();
    *cs.last_mut().unwrap() = H::hash_elements(&rem);
    let queried: Vec<E> = run.positions.iter().map(|&p| evals[p]).collect();
    let detail = json!({"ctx": ctx, "degree": deg, "bound": d - 1, "remainder_coefficients_sent": want, "allowed": rem_len});
    // validation under the geometry with twice the bound
    let g2 = Geo { d: 2 * d, blowup: geo.blowup / 2, folding: geo.folding, rem: geo.rem };
    if g2.num_layers() == geo.num_layers() && g2.realisable() {
        match frih::verify_bytes::<E, H>(&g2, &bytes, &cs, &queried, &run.positions, 2 * d - 1) {
            Ok(Verdict::Accept) => rep.count("validated_under_doubled_bound:overlong-remainder"),
            other => {
                rep.inconclusive("attack-not-consistent-with-other-checks|overlong-remainder", json!({"detail": detail, "under_doubled_bound": format!("{other:?}").chars().take(120).collect::<String>()}));
                return;
            },
        }
    } else {
        rep.count("overlong-remainder:unvalidated(aligned geometry)");
    }
    rep.evals(1);
    match frih::verify_bytes::<E, H>(geo, &bytes, &cs, &queried, &run.positions, d - 1) {
        Ok(Verdict::Reject(e)) => rep.count(&format!("rejected:overlong-remainder:{}", e.split(|c: char| c == '(' || c.is_ascii_digit()).next().unwrap_or("?"))),
        Ok(Verdict::Accept) => rep.violation("accepted|overlong-remainder", detail),
        Err(p) => rep.violation(&format!("{}|overlong-remainder", p.sig()), detail),
    }
}

fn one<E, H>(rep: &mut Report, rng: &mut Rng, case: u64, max_log_d: u32, name: &str)
where
    E: Fut + FieldElement,
    H: ElementHasher<BaseField = <E as FieldElement>::BaseField>,
{
    let geo = Geo::gen(rng, max_log_d);
    let bound = geo.d - 1;
    let dom = geo.domain();
    let nq = (*rng.pick(&[1usize, 2, 3, 6, 12, 32, 80, 255])).min(dom - 1);
    let pos = Pos::Drawn(nq, rng.u64());
    let ctx = json!({"inst": name, "case": case, "geo": format!("{geo:?}"), "queries": nq});
    rep.distinct_key(format!("{name}/{geo:?}/{nq}").as_bytes());
    rep.count(&format!("inst:{name}"));
    rep.count(&format!("folding:{}", geo.folding));

    // ---- (c) substitutions into honest runs: exact-bound polynomial and a low-degree one (whose
    // remainder has leading zeros)
    for (class, degree) in [("exactly-bound", bound), ("low", (geo.d / 2).saturating_sub(1))] {
        let coeffs = frih::random_poly::<E>(rng, degree);
        let run = match frih::prove::<E, H>(&geo, frih::evaluate(&coeffs, dom), &pos) {
            Ok(r) => r,
            Err(p) => {
                rep.inconclusive(&format!("honest-prover-panicked (C08's business): {}", p.sig()), ctx.clone());
                return;
            },
        };
        if !matches!(frih::verify_run(&run, &run.proof_bytes), Ok(Verdict::Accept)) {
            rep.inconclusive("honest-proof-not-accepted (C08's business)", ctx.clone());
            return;
        }
        let actx = json!({"ctx": ctx, "polynomial": class});
        let alphas: Vec<E> = frih::replay_alphas::<E, H>(&run.commitments);
        for a in attacks::<E, H>(rng, &run, &alphas) {
            judge_attack(rep, &actx, &run, &a);
        }
        if class == "exactly-bound" {
            // ---- (d) commitments
            let cs = &run.commitments;
            let queried: Vec<E> = run.positions.iter().map(|&p| run.evaluations[p]).collect();
            let mut variants: Vec<(&str, Vec<H::Digest>)> = vec![];
            for i in 0..cs.len() {
                let mut c2 = cs.clone();
                c2[i] = H::hash(&rng.bytes(8));
                variants.push((if i + 1 == cs.len() { "remainder-commitment-changed" } else { "layer-commitment-changed" }, c2));
            }
            if cs.len() >= 2 {
                let mut c2 = cs.clone();
                c2.swap(0, cs.len() - 1);
                variants.push(("commitments-swapped", c2));
                variants.push(("last-commitment-dropped", cs[..cs.len() - 1].to_vec()));
            }
            let mut c2 = cs.clone();
            c2.push(H::hash(&rng.bytes(8)));
            variants.push(("extra-commitment", c2));
            for (kind, c2) in variants {
                rep.evals(1);
                match frih::verify_bytes::<E, H>(&geo, &run.proof_bytes, &c2, &queried, &run.positions, bound) {
                    Ok(Verdict::Reject(e)) => rep.count(&format!("rejected:{kind}:{}", e.split('(').next().unwrap_or("?"))),
                    Ok(Verdict::Accept) => rep.violation(&format!("accepted|{kind}"), actx.clone()),
                    // panic-freedom on malformed transcripts is C05's subject; recorded, not judged here
                    Err(p) => rep.count(&format!("panicked_not_judged:{kind}:{}", p.masked())),
                }
            }
            // ---- (b) understated degree bounds
            let mut bounds: Vec<usize> = vec![bound.saturating_sub(1), bound / 2, (geo.d / 2).saturating_sub(1), (geo.d / geo.folding).saturating_sub(1), bound.saturating_sub(8), 1, 0];
            // bounds in the same power-of-two bracket whose (bound + 1) is still divisible by
            // folding^layers: no truncation error, same domain - only the remainder degree check
            // can reject them
            let f_all = geo.folding.pow(geo.num_layers() as u32);
            for j in 1..=3 {
                if geo.d > j * f_all && geo.d - j * f_all > geo.d / 2 {
                    bounds.push(geo.d - j * f_all - 1);
                }
            }
            bounds.retain(|b| *b < bound);
            bounds.sort_unstable();
            bounds.dedup();
            for b in bounds {
                rep.evals(1);
                match frih::verify_bytes::<E, H>(&geo, &run.proof_bytes, cs, &queried, &run.positions, b) {
                    Ok(Verdict::Reject(e)) => rep.count(&format!("rejected:understated-bound:{}", e.split('(').next().unwrap_or("?"))),
                    Ok(Verdict::Accept) => rep.violation("accepted|understated-degree-bound", json!({"ctx": actx, "declared": b, "true_degree": bound})),
                    Err(p) => rep.count(&format!("panicked_not_judged:understated-bound:{}", p.masked())),
                }
            }
            // evaluations claimed at the queried positions differ from the committed ones
            let mut q2 = queried.clone();
            let i = rng.usize(q2.len());
            q2[i] += E::ONE;
            rep.evals(1);
            match frih::verify_bytes::<E, H>(&geo, &run.proof_bytes, cs, &q2, &run.positions, bound) {
                Ok(Verdict::Reject(_)) => rep.count("rejected:queried-evaluation-changed"),
                Ok(Verdict::Accept) => rep.violation("accepted|queried-evaluation-changed", actx.clone()),
                Err(p) => rep.violation(&format!("{}|queried-evaluation-changed", p.sig()), actx.clone()),
            }
        }
    }

    overlong_remainder::<E, H>(rep, rng, &ctx, &geo, &pos);

    // ---- (a) data that is not low degree, pushed through the honest prover
    let (class, evals): (&str, Vec<E>) = match rng.usize(3) {
        0 => ("random-function", (0..dom).map(|_| uniform::<E>(rng)).collect()),
        _ => {
            // degree in (bound, min(4d, domain) - 1], uniform coefficients
            let hi = (4 * geo.d).min(dom) - 1;
            if hi <= bound {
                return;
            }
            let deg = bound + 1 + rng.usize(hi - bound);
            let coeffs: Vec<E> = (0..=deg).map(|_| uniform::<E>(rng)).collect();
            if coeffs[deg] == E::ZERO {
                return;
            }
            (if deg == bound + 1 { "degree-bound-plus-1" } else { "higher-degree" }, frih::evaluate(&coeffs, dom))
        },
    };
    rep.evals(1);
    match frih::prove::<E, H>(&geo, evals, &pos) {
        Err(p) => rep.count(&format!("prover_refused_non_low_degree:{}", p.masked())),
        Ok(run) => match frih::verify_run(&run, &run.proof_bytes) {
            Ok(Verdict::Reject(e)) => rep.count(&format!("rejected:{class}:{}", e.split('(').next().unwrap_or("?"))),
            Ok(Verdict::Accept) => rep.violation(&format!("accepted|{class}"), json!({"ctx": ctx, "final_points": frih::position_chain(&geo, &run.positions).last().unwrap().len()})),
            Err(p) => rep.violation(&format!("{}|{class}", p.sig()), ctx.clone()),
        },
    }
    if rep.samples.len() < rep.max_samples {
        rep.sample(json!({"ctx": ctx, "non_low_degree_class": class}));
    }
}

pub fn run(args: &Args) {
    let mut rep = Report::new("C09", "c09",
        "per case one random realisable FRI geometry x 12 field/extension/hasher instantiations x 1..255 drawn queries: (a) random functions and polynomials of degree bound+1..4*bound+3 with uniform coefficients through the honest prover must be rejected; (b) every understated bound in {bound-1, bound-8, bound/2, (bound+1)/2-1, (bound+1)/folding-1, 1, 0, bound - j*folding^layers for j = 1..3 (same domain, no truncation)} must be rejected; (c) substitutions into honest proofs at every layer: value changed, rows swapped, row crafted to keep its fold at alpha (validated: accepted when only the layer commitment check is skipped), remainder coefficient changed, remainder crafted to agree on all queried points, remainder with leading zeros trimmed (validated likewise); (d) changed / swapped / dropped / extra commitments, changed claimed evaluation; (e) a non-truncating prover: degree in (bound, 2*bound+1], honest layers, full last-layer interpolant as remainder with its own commitment (validated: accepted under the geometry with twice the bound on the same domain); evaluation = one verification of forged data; distinct = (instantiation, geometry, queries)");
    let seed = args.seed();
    let max_log_d = args.u64("maxlogd", if args.thorough() { 12 } else { 9 }) as u32;
    let mut w = Worker::new(args, 500);
    for case in w.from..w.to {
        if !w.start(case, &mut rep) {
            continue;
        }
        let mut rng = Rng::for_case(seed, 900, case);
        crate::fri_dispatch!(one, case, &mut rep, &mut rng, case, max_log_d);
    }
    rep.extra.insert("failpoint_validation".into(), json!(cfg!(winterfell_verif)));
    rep.finish(&args.out());
}
