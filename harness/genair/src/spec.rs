//! Specification value of a randomly generated AIR. The same value is interpreted by the
//! `Air` implementation (air.rs, winterfell field arithmetic) and by the independent checker
//! (checker.rs, reference integer arithmetic); nothing else is shared between the two.
use std::sync::Arc;

use vcommon::refarith::{addm, mulm, powm, FieldSpec};
use vcommon::Rng;

/// coef * prod cur[cols] * prod periodic[periodic]
#[derive(Clone, Debug, PartialEq)]
pub struct Term {
    pub coef: u128,
    pub cols: Vec<usize>,
    pub periodic: Vec<usize>,
}

/// next[target] = constant + sum a_j * cur[c_j] + top
#[derive(Clone, Debug, PartialEq)]
pub struct Constraint {
    pub target: usize,
    pub constant: u128,
    pub linear: Vec<(usize, u128)>,
    pub top: Option<Term>,
    /// rotation column (next = w * cur): keeps its recurrence through the exempt rows
    pub rotation_log_order: Option<u32>,
}

impl Constraint {
    /// (base degree, cycle lengths) as declared to winterfell
    pub fn degree(&self, periodic: &[Vec<u128>]) -> (usize, Vec<usize>) {
        match &self.top {
            Some(t) if !t.cols.is_empty() => (t.cols.len(), t.periodic.iter().map(|&i| periodic[i].len()).collect()),
            _ => (1, vec![]),
        }
    }
}

#[derive(Clone, Debug, PartialEq)]
pub enum AuxKind {
    /// aux[k+1] = aux[k] * (main[col][k] + r)^pow, aux[0] = 1 (constraint degree 1 + pow)
    Product,
    /// aux[k+1] = aux[k] + r * main[col][k], aux[0] = r
    Sum,
}

#[derive(Clone, Debug, PartialEq)]
pub struct AuxCol {
    pub kind: AuxKind,
    /// exponent of the Product kind (1..=4); 1 for Sum
    pub pow: usize,
    pub main_col: usize,
    /// index of the random element used as r; None = the constant 7
    pub rand: Option<usize>,
}

#[derive(Clone, Debug, PartialEq)]
pub struct AssertSpec {
    /// 0 single, 1 periodic, 2 sequence
    pub kind: u8,
    pub col: usize,
    pub first: usize,
    pub stride: usize,
    pub values: Vec<u128>,
}

impl AssertSpec {
    pub fn steps(&self, n: usize) -> Vec<usize> {
        match self.kind {
            0 => vec![self.first],
            1 => (0..n / self.stride).map(|i| self.first + i * self.stride).collect(),
            _ => (0..self.values.len()).map(|i| self.first + i * self.stride).collect(),
        }
    }
    pub fn value_at(&self, idx: usize) -> u128 {
        if self.kind == 2 { self.values[idx] } else { self.values[0] }
    }
}

#[derive(Clone, Debug, PartialEq)]
pub struct Spec {
    pub field: FieldSpec,
    pub width: usize,
    pub log_n: u32,
    pub constraints: Vec<Constraint>,
    pub periodic: Vec<Vec<u128>>,
    pub exemptions: usize,
    pub aux: Vec<AuxCol>,
    pub aux_rands: usize,
    pub assertions: Vec<AssertSpec>,
    /// order in which the AIR hands its assertions to winterfell (a permutation)
    pub assertion_order: Vec<usize>,
    pub meta: Vec<u8>,
}

pub type SpecRef = Arc<Spec>;

/// knobs of the generator
#[derive(Clone, Debug)]
pub struct GenParams {
    pub log_n: u32,
    pub max_width: usize,
    pub max_degree: usize,
    pub periodic: bool,
    pub aux: bool,
    pub exemptions: usize,
    pub long_sequence: bool,
    pub max_blowup: usize,
    /// only specifications whose declared degrees are exact and whose evaluation domain is tight
    /// (what winterfell's debug-build self-checks demand of an AIR)
    pub exact: bool,
    /// upper bound on the number of main-segment assertions (0 = default 6)
    pub max_assertions: usize,
    /// periodic cycles only from the three longest admissible lengths (n, n/2, n/4)
    pub long_cycles: bool,
}

impl Spec {
    pub fn n(&self) -> usize {
        1 << self.log_n
    }
    pub fn p(&self) -> u128 {
        self.field.p
    }
    /// smallest blowup factor the declared degrees need
    pub fn min_blowup(&self) -> usize {
        let mut m = 2;
        for c in &self.constraints {
            let (b, cy) = c.degree(&self.periodic);
            m = m.max((b + cy.len() - 1).next_power_of_two());
        }
        for a in &self.aux {
            if a.kind == AuxKind::Product {
                m = m.max(a.pow.next_power_of_two()).max(2);
            }
        }
        m
    }
    /// highest evaluation degree over all constraints (documented formula)
    pub fn max_eval_degree(&self) -> usize {
        let n = self.n();
        let mut best = 0;
        for c in &self.constraints {
            let (b, cy) = c.degree(&self.periodic);
            let d = b * (n - 1) + cy.iter().map(|c| (n / c) * (c - 1)).sum::<usize>();
            best = best.max(d);
        }
        for a in &self.aux {
            best = best.max(if a.kind == AuxKind::Product { (1 + a.pow) * (n - 1) } else { n - 1 });
        }
        best
    }
    /// winterfell's debug builds require of an AIR that every declared degree is exact (checked
    /// by the generator's construction) and that the constraint evaluation domain is the smallest
    /// power of two above the highest quotient degree; this is the second condition
    pub fn debug_exact(&self) -> bool {
        let n = self.n();
        let max_deg = self.max_eval_degree() - (n - self.exemptions);
        max_deg.max(n + 1).next_power_of_two() == n * self.min_blowup()
    }
    /// a primitive root of unity of order 2^k, from the field's multiplicative generator
    pub fn root_of_unity(&self, k: u32) -> u128 {
        powm(self.field.generator, (self.field.p - 1) >> k, self.field.p)
    }

    /// value of constraint `c`'s right-hand side on row `cur` at `step` (reference arithmetic)
    pub fn rhs(&self, c: &Constraint, cur: &[u128], step: usize) -> u128 {
        let p = self.p();
        let mut acc = c.constant;
        for (j, a) in &c.linear {
            acc = addm(acc, mulm(*a, cur[*j], p), p);
        }
        if let Some(t) = &c.top {
            let mut v = t.coef;
            for j in &t.cols {
                v = mulm(v, cur[*j], p);
            }
            for i in &t.periodic {
                let col = &self.periodic[*i];
                v = mulm(v, col[step % col.len()], p);
            }
            acc = addm(acc, v, p);
        }
        acc
    }

    /// generates the main trace (columns of canonical integers) from a random first row
    pub fn build_main(&self, rng: &mut Rng) -> Vec<Vec<u128>> {
        let (n, p) = (self.n(), self.p());
        let mut cols = vec![vec![0u128; n]; self.width];
        let targets: Vec<Option<&Constraint>> =
            (0..self.width).map(|j| self.constraints.iter().find(|c| c.target == j)).collect();
        for col in cols.iter_mut() {
            col[0] = 1 + rng.below128(p - 1);
        }
        let mut cur = vec![0u128; self.width];
        for step in 0..n - 1 {
            for j in 0..self.width {
                cur[j] = cols[j][step];
            }
            for j in 0..self.width {
                cols[j][step + 1] = match targets[j] {
                    Some(c) if step < n - self.exemptions || c.rotation_log_order.is_some() => self.rhs(c, &cur, step),
                    // free columns, and constrained columns on exempt steps, are random
                    _ => rng.below128(p),
                };
            }
        }
        cols
    }

    /// fills the assertion values from a main trace (used once, at generation time)
    pub fn read_assertion_values(&mut self, main: &[Vec<u128>]) {
        let n = self.n();
        for a in self.assertions.iter_mut() {
            let steps = AssertSpec { values: vec![0; if a.kind == 2 { n / a.stride } else { 1 }], ..a.clone() }.steps(n);
            a.values = if a.kind == 2 { steps.iter().map(|&s| main[a.col][s]).collect() } else { vec![main[a.col][a.first]] };
        }
    }
}

fn pick_distinct(rng: &mut Rng, n: usize, k: usize) -> Vec<usize> {
    let mut v: Vec<usize> = (0..n).collect();
    rng.shuffle(&mut v);
    v.truncate(k);
    v
}

/// random AIR specification (assertion values still empty; see `read_assertion_values`)
pub fn gen_spec(rng: &mut Rng, field: FieldSpec, gp: &GenParams) -> Spec {
    loop {
        let s = gen_spec_once(rng, field, gp);
        if !gp.exact || s.debug_exact() {
            return s;
        }
    }
}

fn gen_spec_once(rng: &mut Rng, field: FieldSpec, gp: &GenParams) -> Spec {
    let n = 1usize << gp.log_n;
    let p = field.p;
    let width = rng.range(1, gp.max_width.max(1));
    // periodic columns
    let nper = if gp.periodic { rng.range(1, 3) } else { 0 };
    let periodic: Vec<Vec<u128>> = (0..nper)
        .map(|_| {
            let c = 1usize << if gp.long_cycles { rng.range((gp.log_n as usize).saturating_sub(2).max(1), gp.log_n as usize) } else { rng.range(1, gp.log_n as usize) };
            (0..c).map(|_| rng.below128(p)).collect()
        })
        .collect();
    // constrained columns: at least one; some of them rotation columns (enable periodic assertions)
    let ncons = rng.range(1, width);
    let targets = pick_distinct(rng, width, ncons);
    let rotation: Vec<bool> = (0..targets.len()).map(|ci| ci > 0 && rng.chance(1, 4) && !(gp.exact && gp.exemptions > 1)).collect();
    // columns usable as factors of a top term / as aux sources: in exact mode only full-degree ones
    let factor_cols: Vec<usize> = (0..width).filter(|j| !gp.exact || !targets.iter().zip(&rotation).any(|(t, r)| *r && t == j)).collect();
    let mut constraints = vec![];
    for (ci, &t) in targets.iter().enumerate() {
        if rotation[ci] {
            let k = rng.usize(gp.log_n as usize) as u32; // order 2^k < n
            let w = powm(field.generator, (p - 1) >> k, p);
            constraints.push(Constraint { target: t, constant: 0, linear: vec![(t, w)], top: None, rotation_log_order: Some(k) });
            continue;
        }
        let d = if gp.max_degree <= 1 { 1 } else { rng.range(1, gp.max_degree) };
        let per: Vec<usize> = if nper > 0 && rng.chance(2, 3) { (0..rng.range(1, 2.min(nper))).map(|_| rng.usize(nper)).collect() } else { vec![] };
        let top = if d == 1 && per.is_empty() && rng.bool() {
            None
        } else {
            Some(Term { coef: 1 + rng.below128(p - 1), cols: (0..d).map(|_| *rng.pick(&factor_cols)).collect(), periodic: per })
        };
        // lower terms: only when they are strictly below the top term's degree
        let has_high_top = top.as_ref().map(|t| t.cols.len() >= 2 || !t.periodic.is_empty()).unwrap_or(false);
        let linear: Vec<(usize, u128)> = if has_high_top || top.is_none() {
            (0..rng.usize(3) + if top.is_none() { 1 } else { 0 }).map(|_| (rng.usize(width), 1 + rng.below128(p - 1))).collect()
        } else {
            vec![]
        };
        constraints.push(Constraint { target: t, constant: if rng.bool() { rng.below128(p) } else { 0 }, linear, top, rotation_log_order: None });
    }
    // auxiliary segment
    // (main + auxiliary width may not exceed 255: TraceInfo refuses wider traces)
    let (aux, aux_rands) = if gp.aux && width < 255 {
        let a = rng.range(1, 3).min(255 - width);
        let r = if rng.chance(1, 8) { 0 } else { rng.range(1, 4) };
        let cols = (0..a)
            .map(|_| {
                let kind = if rng.bool() { AuxKind::Product } else { AuxKind::Sum };
                // higher auxiliary degrees (the auxiliary segment can carry the highest degree of the AIR)
                let pow = if kind == AuxKind::Product && gp.max_blowup >= 4 { *rng.pick(&[1usize, 1, 1, 2, 3, 4]) } else { 1 };
                AuxCol {
                kind,
                pow,
                main_col: *rng.pick(&factor_cols),
                rand: if r == 0 { None } else { Some(rng.usize(r)) },
                }
            })
            .collect();
        (cols, r)
    } else {
        (vec![], 0)
    };
    // assertions on the main segment, non-overlapping by explicit cell sets
    let mut used = vec![vec![false; n]; width];
    let mut assertions: Vec<AssertSpec> = vec![];
    let try_add = |a: AssertSpec, used: &mut Vec<Vec<bool>>, assertions: &mut Vec<AssertSpec>| {
        let probe = AssertSpec { values: vec![0; if a.kind == 2 { n / a.stride } else { 1 }], ..a.clone() };
        let steps = probe.steps(n);
        if steps.iter().any(|&s| used[a.col][s]) {
            return;
        }
        for s in steps {
            used[a.col][s] = true;
        }
        assertions.push(a);
    };
    if gp.long_sequence {
        // a sequence assertion with >= 64 values (the prover's "large polynomial" path)
        let stride = (n / 64).max(2).min(n / 2);
        let stride = if n / stride >= 64 { stride } else { 2 };
        try_add(AssertSpec { kind: 2, col: rng.usize(width), first: rng.usize(stride), stride, values: vec![] }, &mut used, &mut assertions);
    }
    let want = rng.range(1, if gp.max_assertions == 0 { 6 } else { gp.max_assertions });
    for _ in 0..want * 3 {
        if assertions.len() >= want + gp.long_sequence as usize {
            break;
        }
        let col = rng.usize(width);
        let a = match rng.usize(6) {
            0 | 1 => {
                let (r1, r2) = (rng.usize(n), rng.usize(n));
                AssertSpec { kind: 0, col, first: *rng.pick(&[0, n - 1, r1, r2]), stride: 0, values: vec![] }
            },
            2 | 3 => {
                let stride = 1usize << rng.range(1, gp.log_n as usize - 1);
                AssertSpec { kind: 2, col, first: rng.usize(stride), stride, values: vec![] }
            },
            _ => {
                // periodic: needs a rotation column whose order divides the stride
                let rots: Vec<&Constraint> = constraints.iter().filter(|c| c.rotation_log_order.is_some()).collect();
                if rots.is_empty() {
                    AssertSpec { kind: 0, col, first: rng.usize(n), stride: 0, values: vec![] }
                } else {
                    let c = *rng.pick(&rots);
                    let k = c.rotation_log_order.unwrap().max(1);
                    let stride = 1usize << rng.range(k as usize, gp.log_n as usize);
                    AssertSpec { kind: 1, col: c.target, first: rng.usize(stride), stride, values: vec![] }
                }
            },
        };
        try_add(a, &mut used, &mut assertions);
    }
    if assertions.is_empty() {
        assertions.push(AssertSpec { kind: 0, col: 0, first: 0, stride: 0, values: vec![] });
    }
    let mut assertion_order: Vec<usize> = (0..assertions.len()).collect();
    rng.shuffle(&mut assertion_order);
    let meta = match rng.usize(6) {
        0 => {
            let l = 1 + rng.usize(20);
            rng.bytes(l)
        },
        1 => {
            let l = 200 + rng.usize(100);
            rng.bytes(l)
        },
        _ => vec![],
    };
    let mut spec = Spec { field, width, log_n: gp.log_n, constraints, periodic, exemptions: 1, aux, aux_rands, assertions, assertion_order, meta };
    // exemptions within what the context accepts: n/2 + 1 and ce_domain_size - 1 + n - eval_degree
    let ce_blowup = spec.min_blowup();
    let limit = (n / 2 + 1).min(ce_blowup * n - 1 + n - spec.max_eval_degree());
    spec.exemptions = gp.exemptions.clamp(1, limit.max(1));
    spec
}
