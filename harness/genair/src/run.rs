//! Case-level helpers shared by the STARK monitors: option generation, instance generation,
//! prove / verify with panic capture, and static dispatch over (field, hasher).
use std::sync::Arc;

use vcommon::{guard, PanicInfo, Rng};
use vwf::BaseFut;
use winter_crypto::{DefaultRandomCoin, ElementHasher, MerkleTree};
use winterfell::{AcceptableOptions, BatchingMethod, FieldExtension, Proof, ProofOptions, Prover};

use crate::air::{GenAir, GenPub};
use crate::prover::{GenProver, GenTrace};
use crate::spec::{gen_spec, GenParams, Spec, SpecRef};

pub const BATCHING: [BatchingMethod; 3] = [BatchingMethod::Linear, BatchingMethod::Algebraic, BatchingMethod::Horner];
pub const EXTENSIONS: [FieldExtension; 3] = [FieldExtension::None, FieldExtension::Quadratic, FieldExtension::Cubic];

/// proof options as plain numbers (so that cases can be described, hashed and replayed)
#[derive(Clone, Debug, PartialEq)]
pub struct Opts {
    pub queries: usize,
    pub blowup: usize,
    pub grinding: u32,
    pub ext: u8,
    pub folding: usize,
    pub rem: usize,
    pub bc: u8,
    pub bd: u8,
    pub partitions: usize,
    pub hash_rate: usize,
}

impl Opts {
    pub fn build(&self) -> ProofOptions {
        let o = ProofOptions::new(self.queries, self.blowup, self.grinding, EXTENSIONS[self.ext as usize], self.folding, self.rem, BATCHING[self.bc as usize], BATCHING[self.bd as usize]);
        if self.partitions == 1 && self.hash_rate == 1 { o } else { o.with_partitions(self.partitions, self.hash_rate) }
    }
    /// FRI geometry realisable for trace length n (DESIGN.md 4.3)
    pub fn fri_ok(&self, n: usize) -> bool {
        let (mut d, mut dom) = (n, n * self.blowup);
        while dom > (self.rem + 1) * self.blowup {
            if d % self.folding != 0 || dom / self.folding < 2 {
                return false;
            }
            d /= self.folding;
            dom /= self.folding;
        }
        true
    }
    pub fn valid_for(&self, spec: &Spec) -> bool {
        let n = spec.n();
        self.blowup >= spec.min_blowup()
            && self.queries < n * self.blowup
            && self.fri_ok(n)
            && (self.ext < 2 || spec.field.cube.is_some())
            && n * self.blowup <= 1 << 22
    }
}

pub fn gen_opts(rng: &mut Rng, spec: &Spec, max_blowup: usize) -> Opts {
    loop {
        let min_b = spec.min_blowup();
        let lb = min_b.trailing_zeros() as usize;
        let hb = (max_blowup.max(min_b)).trailing_zeros() as usize;
        let o = Opts {
            queries: match rng.usize(6) { 0 => 1, 1 => 2 + rng.usize(6), 2 => 255, 3 => 100 + rng.usize(155), _ => 1 + rng.usize(60) },
            blowup: 1 << rng.range(lb, hb),
            grinding: match rng.usize(4) { 0 => 0, 1 => 1 + rng.usize(4) as u32, 2 => 8 + rng.usize(5) as u32, _ => rng.usize(8) as u32 },
            ext: rng.usize(3) as u8,
            folding: 1 << rng.range(1, 4),
            rem: (1 << rng.usize(9)) - 1,
            bc: rng.usize(3) as u8,
            bd: rng.usize(3) as u8,
            partitions: if rng.chance(1, 3) { rng.range(2, 16) } else { 1 },
            hash_rate: if rng.chance(1, 3) { *rng.pick(&[1usize, 2, 3, 4, 7, 8, 16, 255]) } else { 1 },
        };
        let o = Opts { queries: o.queries.min(spec.n() * o.blowup - 1), ..o };
        if o.valid_for(spec) {
            return o;
        }
    }
}

/// a generated instance: specification (with assertion values), satisfying main trace, options
#[derive(Clone)]
pub struct Instance {
    pub spec: SpecRef,
    pub main: Vec<Vec<u128>>,
    pub opts: Opts,
}

pub fn gen_instance(rng: &mut Rng, field: vcommon::refarith::FieldSpec, gp: &GenParams) -> Instance {
    let mut spec = gen_spec(rng, field, gp);
    let main = spec.build_main(rng);
    spec.read_assertion_values(&main);
    let opts = gen_opts(rng, &spec, gp.max_blowup);
    Instance { spec: Arc::new(spec), main, opts }
}

#[derive(Debug)]
pub enum ProveOutcome {
    Proof(Box<Proof>),
    Error(String),
    Panic(PanicInfo),
}

pub fn prove<B, H>(spec: &SpecRef, main: &[Vec<u128>], options: ProofOptions, corrupt_aux: Option<(usize, usize)>) -> ProveOutcome
where
    B: BaseFut,
    H: ElementHasher<BaseField = B> + Sync + Send,
{
    prove_aux_delta::<B, H>(spec, main, options, corrupt_aux, 1)
}

/// as `prove`; the corrupted auxiliary cell is changed by `delta`
pub fn prove_aux_delta<B, H>(spec: &SpecRef, main: &[Vec<u128>], options: ProofOptions, corrupt_aux: Option<(usize, usize)>, delta: u128) -> ProveOutcome
where
    B: BaseFut,
    H: ElementHasher<BaseField = B> + Sync + Send,
{
    let r = guard(|| {
        let mut prover = GenProver::<B, H>::new(spec.clone(), options);
        prover.corrupt_aux = corrupt_aux;
        prover.aux_delta = delta;
        let trace = GenTrace::<B>::new(spec, main);
        #[cfg(not(feature = "async"))]
        let r = prover.prove(trace);
        #[cfg(feature = "async")]
        let r = block_on(prover.prove(trace));
        r
    });
    match r {
        Ok(Ok(p)) => ProveOutcome::Proof(Box::new(p)),
        Ok(Err(e)) => ProveOutcome::Error(format!("{e:?}")),
        Err(p) => ProveOutcome::Panic(p),
    }
}

#[derive(Debug, Clone, PartialEq)]
pub enum VerifyOutcome {
    Accept,
    Reject(String),
    Panic(String),
}

pub fn verify<B, H>(proof: Proof, spec: &SpecRef, acceptable: &AcceptableOptions) -> VerifyOutcome
where
    B: BaseFut,
    H: ElementHasher<BaseField = B> + Sync + Send,
{
    let pi = GenPub::<B>::new(spec.clone());
    match guard(|| winterfell::verify::<GenAir<B>, H, DefaultRandomCoin<H>, MerkleTree<H>>(proof, pi, acceptable)) {
        Ok(Ok(())) => VerifyOutcome::Accept,
        Ok(Err(e)) => VerifyOutcome::Reject(format!("{e:?}")),
        Err(p) => VerifyOutcome::Panic(p.sig()),
    }
}

/// static dispatch over (field, hasher): `$f::<B, H>(args..., "name")`
#[macro_export]
macro_rules! stark_dispatch {
    ($f:ident, $idx:expr, $($args:expr),*) => {{
        use winter_crypto::hashers::{Blake3_192, Blake3_256, Rp62_248, Rp64_256, RpJive64_256, Sha3_256};
        use winter_math::fields::{f128, f62, f64 as f64m};
        type F64 = f64m::BaseElement;
        type F62 = f62::BaseElement;
        type F128 = f128::BaseElement;
        match $idx % 11 {
            0 => $f::<F128, Blake3_256<F128>>($($args),*, "f128/Blake3_256"),
            1 => $f::<F64, Blake3_256<F64>>($($args),*, "f64/Blake3_256"),
            2 => $f::<F62, Blake3_256<F62>>($($args),*, "f62/Blake3_256"),
            3 => $f::<F64, Rp64_256>($($args),*, "f64/Rp64_256"),
            4 => $f::<F128, Sha3_256<F128>>($($args),*, "f128/Sha3_256"),
            5 => $f::<F64, RpJive64_256>($($args),*, "f64/RpJive64_256"),
            6 => $f::<F62, Rp62_248>($($args),*, "f62/Rp62_248"),
            7 => $f::<F64, Blake3_192<F64>>($($args),*, "f64/Blake3_192"),
            8 => $f::<F128, Blake3_192<F128>>($($args),*, "f128/Blake3_192"),
            9 => $f::<F62, Sha3_256<F62>>($($args),*, "f62/Sha3_256"),
            _ => $f::<F64, Sha3_256<F64>>($($args),*, "f64/Sha3_256"),
        }
    }};
}

/// minimal executor for the async prover variant: its futures never pend (no I/O), so polling
/// with a no-op waker until completion is enough
#[cfg(feature = "async")]
pub fn block_on<F: std::future::Future>(fut: F) -> F::Output {
    use std::task::{Context, Poll, RawWaker, RawWakerVTable, Waker};
    fn noop(_: *const ()) {}
    fn clone(_: *const ()) -> RawWaker {
        RawWaker::new(std::ptr::null(), &VTABLE)
    }
    static VTABLE: RawWakerVTable = RawWakerVTable::new(clone, noop, noop, noop);
    let waker = unsafe { Waker::from_raw(RawWaker::new(std::ptr::null(), &VTABLE)) };
    let mut cx = Context::from_waker(&waker);
    let mut fut = std::pin::pin!(fut);
    loop {
        if let Poll::Ready(v) = fut.as_mut().poll(&mut cx) {
            return v;
        }
        std::thread::yield_now();
    }
}
