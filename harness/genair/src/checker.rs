//! Independent constraint checker: evaluates every assertion and every transition constraint of a
//! `Spec` on a trace given as canonical integers, with reference arithmetic only. Periodic values
//! are taken as `values[step mod cycle]`, never through polynomials.
use vcommon::refarith::{subm, Ext, ExtSpec};

use crate::spec::{AuxKind, Spec};

#[derive(Clone, Debug, PartialEq)]
pub enum Violation {
    MainAssertion { index: usize, step: usize },
    MainTransition { constraint: usize, step: usize },
    AuxAssertion { column: usize },
    AuxTransition { column: usize, step: usize },
}

/// violations on the main segment
pub fn check_main(spec: &Spec, main: &[Vec<u128>]) -> Vec<Violation> {
    let (n, p) = (spec.n(), spec.p());
    let mut out = vec![];
    for (i, a) in spec.assertions.iter().enumerate() {
        for (k, step) in a.steps(n).into_iter().enumerate() {
            if main[a.col][step] != a.value_at(k) {
                out.push(Violation::MainAssertion { index: i, step });
            }
        }
    }
    let mut cur = vec![0u128; spec.width];
    for step in 0..n - spec.exemptions {
        for j in 0..spec.width {
            cur[j] = main[j][step];
        }
        for (ci, c) in spec.constraints.iter().enumerate() {
            let want = spec.rhs(c, &cur, step);
            if subm(main[c.target][step + 1], want, p) != 0 {
                out.push(Violation::MainTransition { constraint: ci, step });
            }
        }
    }
    out
}

/// violations on the auxiliary segment given the random elements (extension arithmetic `es`)
pub fn check_aux(spec: &Spec, es: &ExtSpec, main: &[Vec<u128>], aux: &[Vec<Ext>], rands: &[Ext]) -> Vec<Violation> {
    let n = spec.n();
    let mut out = vec![];
    for (k, a) in spec.aux.iter().enumerate() {
        let r: Ext = match a.rand {
            Some(i) => rands[i],
            None => [7, 0, 0],
        };
        let init = match a.kind {
            AuxKind::Product => es.one(),
            AuxKind::Sum => r,
        };
        if aux[k][0] != init {
            out.push(Violation::AuxAssertion { column: k });
        }
        for step in 0..n - spec.exemptions {
            let m: Ext = [main[a.main_col][step], 0, 0];
            let want = match a.kind {
                AuxKind::Product => {
                    let f = es.add(m, r);
                    (0..a.pow).fold(aux[k][step], |acc, _| es.mul(acc, f))
                },
                AuxKind::Sum => es.add(aux[k][step], es.mul(r, m)),
            };
            if aux[k][step + 1] != want {
                out.push(Violation::AuxTransition { column: k, step });
            }
        }
    }
    out
}
