//! Prover wiring for GenAir: custom trace type (multi-segment trace info) and a `Prover`
//! built from winterfell's default components.
use std::marker::PhantomData;

use vwf::BaseFut;
use winter_maybe_async::maybe_async;
use winter_crypto::{DefaultRandomCoin, ElementHasher, MerkleTree};
use winter_math::FieldElement;
use winterfell::matrix::ColMatrix;
use winterfell::{
    AuxRandElements, CompositionPoly, CompositionPolyTrace, ConstraintCompositionCoefficients, DefaultConstraintCommitment,
    DefaultConstraintEvaluator, DefaultTraceLde, EvaluationFrame, PartitionOptions, ProofOptions, Prover, StarkDomain, Trace,
    TraceInfo, TracePolyTable,
};

use crate::air::{GenAir, GenPub};
use crate::spec::{AuxKind, Spec, SpecRef};

pub struct GenTrace<B: BaseFut> {
    info: TraceInfo,
    main: ColMatrix<B>,
}

impl<B: BaseFut> GenTrace<B> {
    pub fn new(spec: &Spec, main: &[Vec<u128>]) -> Self {
        let cols: Vec<Vec<B>> = main.iter().map(|c| c.iter().map(|v| B::from_int(*v)).collect()).collect();
        Self::from_elements(spec, cols)
    }
    pub fn from_elements(spec: &Spec, cols: Vec<Vec<B>>) -> Self {
        let info = TraceInfo::new_multi_segment(spec.width, spec.aux.len(), spec.aux_rands, spec.n(), spec.meta.clone());
        GenTrace { info, main: ColMatrix::new(cols) }
    }
}

impl<B: BaseFut> Trace for GenTrace<B> {
    type BaseField = B;
    fn info(&self) -> &TraceInfo {
        &self.info
    }
    fn main_segment(&self) -> &ColMatrix<B> {
        &self.main
    }
    fn read_main_frame(&self, row_idx: usize, frame: &mut EvaluationFrame<B>) {
        let next = (row_idx + 1) % self.main.num_rows();
        self.main.read_row_into(row_idx, frame.current_mut());
        self.main.read_row_into(next, frame.next_mut());
    }
}

/// auxiliary segment as the specification defines it; `corrupt` = (column, row) whose value is
/// changed after construction (for negative tests)
pub fn build_aux<B: BaseFut, E: FieldElement<BaseField = B>>(spec: &Spec, main: &ColMatrix<B>, rands: &[E], corrupt: Option<(usize, usize)>) -> ColMatrix<E> {
    build_aux_delta(spec, main, rands, corrupt, 1)
}

/// as `build_aux`, the corrupted cell is changed by `delta` (a base-field value)
pub fn build_aux_delta<B: BaseFut, E: FieldElement<BaseField = B>>(spec: &Spec, main: &ColMatrix<B>, rands: &[E], corrupt: Option<(usize, usize)>, delta: u128) -> ColMatrix<E> {
    let n = spec.n();
    let mut cols = vec![];
    for a in &spec.aux {
        let r = match a.rand {
            Some(i) => rands[i],
            None => E::from(B::from(7u32)),
        };
        let mut col = vec![E::ZERO; n];
        col[0] = match a.kind {
            AuxKind::Product => E::ONE,
            AuxKind::Sum => r,
        };
        for k in 0..n - 1 {
            let m: E = E::from(main.get(a.main_col, k));
            col[k + 1] = match a.kind {
                AuxKind::Product => col[k] * (m + r).exp((a.pow as u32).into()),
                AuxKind::Sum => col[k] + r * m,
            };
        }
        cols.push(col);
    }
    if let Some((c, row)) = corrupt {
        cols[c][row] += E::from(B::from_int(delta));
    }
    ColMatrix::new(cols)
}

pub struct GenProver<B: BaseFut, H: ElementHasher<BaseField = B>> {
    pub options: ProofOptions,
    pub spec: SpecRef,
    pub corrupt_aux: Option<(usize, usize)>,
    pub aux_delta: u128,
    _h: PhantomData<H>,
}

impl<B: BaseFut, H: ElementHasher<BaseField = B>> GenProver<B, H> {
    pub fn new(spec: SpecRef, options: ProofOptions) -> Self {
        GenProver { options, spec, corrupt_aux: None, aux_delta: 1, _h: PhantomData }
    }
}

impl<B, H> Prover for GenProver<B, H>
where
    B: BaseFut,
    H: ElementHasher<BaseField = B> + Sync + Send,
{
    type BaseField = B;
    type Air = GenAir<B>;
    type Trace = GenTrace<B>;
    type HashFn = H;
    type VC = MerkleTree<H>;
    type RandomCoin = DefaultRandomCoin<H>;
    type TraceLde<E: FieldElement<BaseField = B>> = DefaultTraceLde<E, H, MerkleTree<H>>;
    type ConstraintCommitment<E: FieldElement<BaseField = B>> = DefaultConstraintCommitment<E, H, MerkleTree<H>>;
    type ConstraintEvaluator<'a, E: FieldElement<BaseField = B>> = DefaultConstraintEvaluator<'a, GenAir<B>, E>;

    fn get_pub_inputs(&self, _trace: &GenTrace<B>) -> GenPub<B> {
        GenPub::new(self.spec.clone())
    }

    fn options(&self) -> &ProofOptions {
        &self.options
    }

    #[maybe_async]
    fn new_trace_lde<E: FieldElement<BaseField = B>>(
        &self,
        trace_info: &TraceInfo,
        main_trace: &ColMatrix<B>,
        domain: &StarkDomain<B>,
        partition_option: PartitionOptions,
    ) -> (Self::TraceLde<E>, TracePolyTable<E>) {
        DefaultTraceLde::new(trace_info, main_trace, domain, partition_option)
    }

    #[maybe_async]
    fn new_evaluator<'a, E: FieldElement<BaseField = B>>(
        &self,
        air: &'a GenAir<B>,
        aux_rand_elements: Option<AuxRandElements<E>>,
        composition_coefficients: ConstraintCompositionCoefficients<E>,
    ) -> Self::ConstraintEvaluator<'a, E> {
        DefaultConstraintEvaluator::new(air, aux_rand_elements, composition_coefficients)
    }

    #[maybe_async]
    fn build_constraint_commitment<E: FieldElement<BaseField = B>>(
        &self,
        composition_poly_trace: CompositionPolyTrace<E>,
        num_constraint_composition_columns: usize,
        domain: &StarkDomain<B>,
        partition_options: PartitionOptions,
    ) -> (Self::ConstraintCommitment<E>, CompositionPoly<E>) {
        DefaultConstraintCommitment::new(composition_poly_trace, num_constraint_composition_columns, domain, partition_options)
    }

    #[maybe_async]
    fn build_aux_trace<E: FieldElement<BaseField = B>>(&self, main_trace: &GenTrace<B>, aux_rand_elements: &AuxRandElements<E>) -> ColMatrix<E> {
        build_aux_delta::<B, E>(&self.spec, main_trace.main_segment(), aux_rand_elements.rand_elements(), self.corrupt_aux, self.aux_delta)
    }
}
