//! GenAir: randomized AIR generator, an `Air`/`Prover` pair interpreting the generated
//! specification, and an independent constraint checker (DESIGN.md section 4.3).
pub mod air;
pub mod checker;
pub mod prover;
pub mod run;
pub mod spec;

pub use air::{GenAir, GenPub};
pub use prover::{build_aux, GenProver, GenTrace};
pub use spec::{gen_spec, GenParams, Spec, SpecRef};
