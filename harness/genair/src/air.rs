//! `Air` implementation interpreting a `Spec` with winterfell's own field arithmetic.
use std::marker::PhantomData;

use vwf::BaseFut;
use winter_math::{ExtensionOf, FieldElement, ToElements};
use winterfell::{
    Air, AirContext, Assertion, AuxRandElements, EvaluationFrame, ProofOptions, TraceInfo, TransitionConstraintDegree,
};

use crate::spec::{AuxKind, Spec, SpecRef};

/// public inputs = the whole specification (including asserted values)
#[derive(Clone)]
pub struct GenPub<B: BaseFut> {
    pub spec: SpecRef,
    pub _b: PhantomData<B>,
}

impl<B: BaseFut> GenPub<B> {
    pub fn new(spec: SpecRef) -> Self {
        GenPub { spec, _b: PhantomData }
    }
}

impl<B: BaseFut> ToElements<B> for GenPub<B> {
    fn to_elements(&self) -> Vec<B> {
        let s = &self.spec;
        let mut out: Vec<B> = vec![];
        let mut int = |v: usize| out.push(B::from(v as u32));
        int(s.width);
        int(s.log_n as usize);
        int(s.exemptions);
        int(s.constraints.len());
        int(s.periodic.len());
        int(s.aux.len());
        int(s.aux_rands);
        int(s.assertions.len());
        for c in &s.constraints {
            out.push(B::from(c.target as u32));
            out.push(B::from_int(c.constant));
            out.push(B::from(c.linear.len() as u32));
            for (j, a) in &c.linear {
                out.push(B::from(*j as u32));
                out.push(B::from_int(*a));
            }
            match &c.top {
                None => out.push(B::from(0u32)),
                Some(t) => {
                    out.push(B::from(1 + t.cols.len() as u32 + 1000 * t.periodic.len() as u32));
                    out.push(B::from_int(t.coef));
                    for j in t.cols.iter().chain(t.periodic.iter()) {
                        out.push(B::from(*j as u32));
                    }
                },
            }
        }
        for col in &s.periodic {
            out.push(B::from(col.len() as u32));
            out.extend(col.iter().map(|v| B::from_int(*v)));
        }
        for a in &s.aux {
            out.push(B::from(((a.kind == AuxKind::Product) as u32) + 2 * a.main_col as u32 + 1000 * a.rand.map(|r| r as u32 + 1).unwrap_or(0) + 100000 * a.pow as u32));
        }
        for a in &s.assertions {
            out.push(B::from(a.kind as u32 + 4 * a.col as u32));
            out.push(B::from(a.first as u32));
            out.push(B::from(a.stride as u32));
            out.push(B::from(a.values.len() as u32));
            out.extend(a.values.iter().map(|v| B::from_int(*v)));
        }
        out
    }
}

pub struct GenAir<B: BaseFut> {
    context: AirContext<B>,
    spec: SpecRef,
    /// the proof's trace info does not describe this specification: a trivial constraint system
    /// of the right shape is used instead, so that nothing in this user code panics
    mismatch: bool,
}

impl<B: BaseFut> GenAir<B> {
    pub fn spec(&self) -> &Spec {
        &self.spec
    }
    pub fn is_mismatch(&self) -> bool {
        self.mismatch
    }
}

fn matches(spec: &Spec, ti: &TraceInfo) -> bool {
    ti.main_trace_width() == spec.width
        && ti.aux_segment_width() == spec.aux.len()
        && ti.get_num_aux_segment_rand_elements() == spec.aux_rands
        && ti.length() == spec.n()
}

impl<B: BaseFut> Air for GenAir<B> {
    type BaseField = B;
    type PublicInputs = GenPub<B>;

    fn new(trace_info: TraceInfo, pub_inputs: GenPub<B>, options: ProofOptions) -> Self {
        let spec = pub_inputs.spec;
        let mismatch = !matches(&spec, &trace_info);
        let (main_deg, aux_deg, n_main_assert, n_aux_assert) = if mismatch {
            let aux = if trace_info.is_multi_segment() { 1 } else { 0 };
            (vec![TransitionConstraintDegree::new(1)], vec![TransitionConstraintDegree::new(1); aux], 1, aux)
        } else {
            let main: Vec<_> = spec
                .constraints
                .iter()
                .map(|c| {
                    let (b, cy) = c.degree(&spec.periodic);
                    if cy.is_empty() { TransitionConstraintDegree::new(b) } else { TransitionConstraintDegree::with_cycles(b, cy) }
                })
                .collect();
            let aux: Vec<_> = spec.aux.iter().map(|a| TransitionConstraintDegree::new(if a.kind == AuxKind::Product { 1 + a.pow } else { 1 })).collect();
            (main, aux, spec.assertions.len(), spec.aux.len())
        };
        let exemptions = if mismatch { 1 } else { spec.exemptions };
        let context = AirContext::new_multi_segment(trace_info, main_deg, aux_deg, n_main_assert, n_aux_assert, options);
        let context = if exemptions > 1 { context.set_num_transition_exemptions(exemptions) } else { context };
        GenAir { context, spec, mismatch }
    }

    fn context(&self) -> &AirContext<B> {
        &self.context
    }

    fn evaluate_transition<E: FieldElement<BaseField = B>>(&self, frame: &EvaluationFrame<E>, periodic_values: &[E], result: &mut [E]) {
        let (cur, next) = (frame.current(), frame.next());
        if self.mismatch {
            result[0] = next[0] - cur[0];
            return;
        }
        for (r, c) in result.iter_mut().zip(self.spec.constraints.iter()) {
            let mut acc = E::from(B::from_int(c.constant));
            for (j, a) in &c.linear {
                acc += cur[*j] * E::from(B::from_int(*a));
            }
            if let Some(t) = &c.top {
                let mut v = E::from(B::from_int(t.coef));
                for j in &t.cols {
                    v *= cur[*j];
                }
                for i in &t.periodic {
                    v *= periodic_values[*i];
                }
                acc += v;
            }
            *r = next[c.target] - acc;
        }
    }

    fn get_assertions(&self) -> Vec<Assertion<B>> {
        if self.mismatch {
            return vec![Assertion::single(0, 0, B::ZERO)];
        }
        self.spec
            .assertion_order
            .iter()
            .map(|&i| {
                let a = &self.spec.assertions[i];
                match a.kind {
                    0 => Assertion::single(a.col, a.first, B::from_int(a.values[0])),
                    1 => Assertion::periodic(a.col, a.first, a.stride, B::from_int(a.values[0])),
                    _ => Assertion::sequence(a.col, a.first, a.stride, a.values.iter().map(|v| B::from_int(*v)).collect()),
                }
            })
            .collect()
    }

    fn get_periodic_column_values(&self) -> Vec<Vec<B>> {
        if self.mismatch {
            return vec![];
        }
        self.spec.periodic.iter().map(|c| c.iter().map(|v| B::from_int(*v)).collect()).collect()
    }

    fn evaluate_aux_transition<F, E>(
        &self,
        main_frame: &EvaluationFrame<F>,
        aux_frame: &EvaluationFrame<E>,
        _periodic_values: &[F],
        aux_rand_elements: &AuxRandElements<E>,
        result: &mut [E],
    ) where
        F: FieldElement<BaseField = B>,
        E: FieldElement<BaseField = B> + ExtensionOf<F>,
    {
        let (cur, next) = (aux_frame.current(), aux_frame.next());
        if self.mismatch {
            result[0] = next[0] - cur[0];
            return;
        }
        let rands = aux_rand_elements.rand_elements();
        let mcur = main_frame.current();
        for (k, a) in self.spec.aux.iter().enumerate() {
            let r = match a.rand {
                Some(i) => rands[i],
                None => E::from(B::from(7u32)),
            };
            let m: E = mcur[a.main_col].into();
            result[k] = match a.kind {
                AuxKind::Product => next[k] - cur[k] * (m + r).exp((a.pow as u32).into()),
                AuxKind::Sum => next[k] - cur[k] - r * m,
            };
        }
    }

    fn get_aux_assertions<E: FieldElement<BaseField = B>>(&self, aux_rand_elements: &AuxRandElements<E>) -> Vec<Assertion<E>> {
        if self.mismatch {
            return vec![Assertion::single(0, 0, E::ZERO)];
        }
        let rands = aux_rand_elements.rand_elements();
        self.spec
            .aux
            .iter()
            .enumerate()
            .map(|(k, a)| {
                let init = match (&a.kind, a.rand) {
                    (AuxKind::Product, _) => E::ONE,
                    (AuxKind::Sum, Some(i)) => rands[i],
                    (AuxKind::Sum, None) => E::from(B::from(7u32)),
                };
                Assertion::single(k, 0, init)
            })
            .collect()
    }
}
