//! Bridges between winterfell field types and the harness' reference arithmetic.
pub mod fut;
pub mod timed;
pub use fut::*;
