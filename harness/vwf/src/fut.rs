//! "Field under test" adapters: canonical value in/out of winterfell elements, raw
//! representation access, representation-biased generators.
use vcommon::refarith::{self, invm, mulm, powm, Ext, ExtSpec, FieldSpec};
use vcommon::Rng;
use winter_math::fields::{f128, f62, f64 as f64m, CubeExtension, QuadExtension};
use winter_math::{ExtensibleField, ExtensionOf, FieldElement, StarkField};

/// one of the three prime fields
pub trait BaseFut: StarkField + ExtensibleField<2> + ExtensibleField<3> + 'static {
    const SPEC: FieldSpec;
    /// documented bound of the internal representation (exclusive)
    const REP_LIMIT: u128;
    fn int(&self) -> u128;
    /// element with canonical value v (v < p) through the checked public constructor
    fn from_int(v: u128) -> Self;
    fn pint(v: u128) -> Self::PositiveInteger;
    /// raw internal limb
    fn raw(&self) -> u128;
    /// element with the given internal representation (raw < REP_LIMIT) and its canonical value
    /// computed by the reference
    fn from_raw(raw: u128) -> (Self, u128);
    /// 2^k-ish constants where the representation changes behaviour
    fn rep_boundaries() -> Vec<u128>;
}

fn raw_to_value_mont64(raw: u128, p: u128) -> u128 {
    // value = raw * (2^64)^-1 mod p
    let r = (1u128 << 64) % p;
    mulm(raw % p, invm(r, p), p)
}

impl BaseFut for f64m::BaseElement {
    const SPEC: FieldSpec = refarith::F64;
    const REP_LIMIT: u128 = refarith::P64;
    fn int(&self) -> u128 {
        self.as_int() as u128
    }
    fn from_int(v: u128) -> Self {
        Self::try_from(v).expect("value below modulus")
    }
    fn pint(v: u128) -> u64 {
        v as u64
    }
    fn raw(&self) -> u128 {
        self.inner() as u128
    }
    fn from_raw(raw: u128) -> (Self, u128) {
        assert!(raw < Self::REP_LIMIT);
        (Self::from_mont(raw as u64), raw_to_value_mont64(raw, refarith::P64))
    }
    fn rep_boundaries() -> Vec<u128> {
        let p = refarith::P64;
        vec![0, 1 << 31, 1 << 32, (1 << 32) - 1, 1 << 33, 1 << 62, 1 << 63, p / 2, p / 2 + 1, p - (1 << 32), p - 1, 0xffffffff, 0xfffffffe00000001 % p, 0xffffffff00000000]
    }
}

impl BaseFut for f62::BaseElement {
    const SPEC: FieldSpec = refarith::F62;
    const REP_LIMIT: u128 = 2 * refarith::P62;
    fn int(&self) -> u128 {
        self.as_int() as u128
    }
    fn from_int(v: u128) -> Self {
        Self::try_from(v).expect("value below modulus")
    }
    fn pint(v: u128) -> u64 {
        v as u64
    }
    fn raw(&self) -> u128 {
        let b = Self::elements_as_bytes(core::slice::from_ref(self));
        u64::from_le_bytes(b.try_into().unwrap()) as u128
    }
    fn from_raw(raw: u128) -> (Self, u128) {
        assert!(raw < Self::REP_LIMIT);
        let limb = [raw as u64];
        // aligned u64 storage reinterpreted through the public zero-copy API; the documented
        // internal range is [0, 2M)
        let bytes: &[u8] = unsafe { core::slice::from_raw_parts(limb.as_ptr() as *const u8, 8) };
        let e = unsafe { Self::bytes_as_elements(bytes) }.expect("aligned 8 bytes")[0];
        (e, raw_to_value_mont64(raw, refarith::P62))
    }
    fn rep_boundaries() -> Vec<u128> {
        let p = refarith::P62;
        vec![0, 1 << 31, 1 << 32, 1 << 61, (1 << 62) - 1, 1 << 62, p / 2, p - 1, p, p + 1, 2 * p - 1, 2 * p - 2, (1 << 62) + 1, p + (1 << 32)]
    }
}

impl BaseFut for f128::BaseElement {
    const SPEC: FieldSpec = refarith::F128;
    const REP_LIMIT: u128 = refarith::P128;
    fn int(&self) -> u128 {
        self.as_int()
    }
    fn from_int(v: u128) -> Self {
        Self::try_from(v).expect("value below modulus")
    }
    fn pint(v: u128) -> u128 {
        v
    }
    fn raw(&self) -> u128 {
        let b = Self::elements_as_bytes(core::slice::from_ref(self));
        u128::from_le_bytes(b.try_into().unwrap())
    }
    fn from_raw(raw: u128) -> (Self, u128) {
        assert!(raw < Self::REP_LIMIT);
        (Self::new(raw), raw)
    }
    fn rep_boundaries() -> Vec<u128> {
        let p = refarith::P128;
        vec![0, 1 << 32, 1 << 63, 1 << 64, (1 << 64) - 1, 1 << 127, p / 2, p - 1, p - (1 << 40), u64::MAX as u128 + 2, 1 << 126, p - (1 << 64)]
    }
}

/// representation-biased base element: (element, canonical value per reference)
pub fn gen_base<B: BaseFut>(rng: &mut Rng) -> (B, u128) {
    let p = B::SPEC.p;
    match rng.below(10) {
        0 => {
            let v = *rng.pick(&[0u128, 1, 2, 3, p - 1, p - 2, p / 2, p / 2 + 1]);
            (B::from_int(v), v)
        },
        1 | 2 | 3 => {
            // internal representation near a boundary
            let bs = B::rep_boundaries();
            let b = *rng.pick(&bs);
            let d = rng.below(9) as i128 - 4;
            let raw = offset_mod(b, d, B::REP_LIMIT);
            B::from_raw(raw)
        },
        4 => {
            // canonical value near a boundary
            let bs = B::rep_boundaries();
            let b = *rng.pick(&bs) % p;
            let d = rng.below(9) as i128 - 4;
            let v = offset_mod(b, d, p);
            (B::from_int(v), v)
        },
        5 => {
            if rng.bool() {
                B::from_raw(rng.below128(B::REP_LIMIT))
            } else {
                // limb patterns: each half-word of the representation independently extreme
                let half = if p >> 64 == 0 { 32 } else { 64 };
                let mask: u128 = (1u128 << half) - 1;
                let limb = |rng: &mut Rng| -> u128 {
                    match rng.below(7) {
                        0 => 0,
                        1 => 1,
                        2 => mask,
                        3 => mask - 1 - rng.below(1 << 12) as u128,
                        4 => 1u128 << (half - 1),
                        5 => mask - (rng.u64() as u128 & ((1u128 << 46) - 1)).min(mask),
                        _ => rng.u128() & mask,
                    }
                };
                let raw = ((limb(rng) << half) | limb(rng)) % B::REP_LIMIT;
                B::from_raw(raw)
            }
        },
        6 => {
            // small values and their negatives
            let v = rng.below(1 << 16) as u128;
            if rng.bool() {
                (B::from_int(v), v)
            } else {
                let v = (p - v) % p;
                (B::from_int(v), v)
            }
        },
        _ => {
            let v = rng.below128(p);
            (B::from_int(v), v)
        },
    }
}

/// element (base or extension) under test
pub trait Fut: FieldElement + 'static {
    type B: BaseFut;
    const DEG: usize;
    fn spec() -> ExtSpec {
        Self::B::SPEC.ext(Self::DEG).expect("supported extension")
    }
    fn name() -> String {
        format!("{}^{}", Self::B::SPEC.name, Self::DEG)
    }
    fn parts(&self) -> [Self::B; 3];
    fn from_parts(p: [Self::B; 3]) -> Self;
    fn pint(v: u128) -> <Self as FieldElement>::PositiveInteger;
    /// Frobenius through the ExtensibleField trait (identity for the base field)
    fn frob(&self) -> Self;
    /// `ExtensionOf<BaseField>::mul_base`
    fn mulb(&self, b: Self::B) -> Self;
    fn to_ref(&self) -> Ext {
        let p = self.parts();
        let mut r = [0u128; 3];
        for i in 0..Self::DEG {
            r[i] = p[i].int();
        }
        r
    }
    fn from_ref(v: Ext) -> Self {
        let mut p = [Self::B::ZERO; 3];
        for i in 0..Self::DEG {
            p[i] = Self::B::from_int(v[i]);
        }
        Self::from_parts(p)
    }
    fn raws(&self) -> [u128; 3] {
        let p = self.parts();
        let mut r = [0u128; 3];
        for i in 0..Self::DEG {
            r[i] = p[i].raw();
        }
        r
    }
    fn gen(rng: &mut Rng) -> (Self, Ext) {
        let mut p = [Self::B::ZERO; 3];
        let mut v = [0u128; 3];
        let sparse = rng.chance(1, 6);
        for i in 0..Self::DEG {
            if sparse && rng.bool() {
                continue;
            }
            let (e, x) = gen_base::<Self::B>(rng);
            p[i] = e;
            v[i] = x;
        }
        (Self::from_parts(p), v)
    }
}

macro_rules! impl_fut_base {
    ($t:ty) => {
        impl Fut for $t {
            type B = $t;
            const DEG: usize = 1;
            fn parts(&self) -> [Self::B; 3] {
                [*self, Self::ZERO, Self::ZERO]
            }
            fn from_parts(p: [Self::B; 3]) -> Self {
                p[0]
            }
            fn pint(v: u128) -> <Self as FieldElement>::PositiveInteger {
                <$t as BaseFut>::pint(v)
            }
            fn frob(&self) -> Self {
                *self
            }
            fn mulb(&self, b: Self::B) -> Self {
                <Self as ExtensionOf<$t>>::mul_base(*self, b)
            }
        }
        impl Fut for QuadExtension<$t> {
            type B = $t;
            const DEG: usize = 2;
            fn parts(&self) -> [Self::B; 3] {
                let b = self.to_base_elements();
                [b[0], b[1], <$t>::ZERO]
            }
            fn from_parts(p: [Self::B; 3]) -> Self {
                QuadExtension::new(p[0], p[1])
            }
            fn pint(v: u128) -> <Self as FieldElement>::PositiveInteger {
                <$t as BaseFut>::pint(v)
            }
            fn frob(&self) -> Self {
                let b = self.to_base_elements();
                let r = <$t as ExtensibleField<2>>::frobenius(b);
                QuadExtension::new(r[0], r[1])
            }
            fn mulb(&self, b: Self::B) -> Self {
                <Self as ExtensionOf<$t>>::mul_base(*self, b)
            }
        }
    };
}
macro_rules! impl_fut_cube {
    ($t:ty) => {
        impl Fut for CubeExtension<$t> {
            type B = $t;
            const DEG: usize = 3;
            fn parts(&self) -> [Self::B; 3] {
                self.to_base_elements()
            }
            fn from_parts(p: [Self::B; 3]) -> Self {
                CubeExtension::new(p[0], p[1], p[2])
            }
            fn pint(v: u128) -> <Self as FieldElement>::PositiveInteger {
                <$t as BaseFut>::pint(v)
            }
            fn frob(&self) -> Self {
                let b = self.to_base_elements();
                let r = <$t as ExtensibleField<3>>::frobenius(b);
                CubeExtension::new(r[0], r[1], r[2])
            }
            fn mulb(&self, b: Self::B) -> Self {
                <Self as ExtensionOf<$t>>::mul_base(*self, b)
            }
        }
    };
}
impl_fut_base!(f64m::BaseElement);
impl_fut_base!(f62::BaseElement);
impl_fut_base!(f128::BaseElement);
impl_fut_cube!(f64m::BaseElement);
impl_fut_cube!(f62::BaseElement);

pub fn ref_pow_big(es: &ExtSpec, a: Ext, e: u128) -> Ext {
    es.pow(a, e)
}

pub fn ref_powm(a: u128, e: u128, p: u128) -> u128 {
    powm(a, e, p)
}

/// (b + d) mod l without overflow, |d| small
pub fn offset_mod(b: u128, d: i128, l: u128) -> u128 {
    let b = b % l;
    if d >= 0 {
        let d = d as u128 % l;
        if b >= l - d {
            b - (l - d)
        } else {
            b + d
        }
    } else {
        let m = (-d) as u128 % l;
        if b >= m {
            b - m
        } else {
            l - (m - b)
        }
    }
}
