//! Executes closures on a helper thread with a timeout; used for calls whose termination is
//! part of the property (field inversion). A timed-out helper is abandoned (it cannot be killed)
//! and replaced.
use std::sync::mpsc::{channel, Sender};
use std::time::Duration;

type Job = Box<dyn FnOnce() + Send>;

pub struct TimedExec {
    tx: Sender<Job>,
}

impl Default for TimedExec {
    fn default() -> Self {
        Self::new()
    }
}

impl TimedExec {
    pub fn new() -> Self {
        let (tx, rx) = channel::<Job>();
        std::thread::spawn(move || {
            vcommon::install_panic_hook();
            while let Ok(job) = rx.recv() {
                job();
            }
        });
        TimedExec { tx }
    }

    /// Some(Ok(v)) finished, Some(Err(panic)) panicked, None did not finish within `limit`
    pub fn run<T: Send + 'static>(
        &mut self,
        f: impl FnOnce() -> T + Send + 'static,
        limit: Duration,
    ) -> Option<Result<T, vcommon::PanicInfo>> {
        let (rtx, rrx) = channel();
        self.tx
            .send(Box::new(move || {
                let _ = rtx.send(vcommon::guard(f));
            }))
            .expect("helper thread alive");
        match rrx.recv_timeout(limit) {
            Ok(v) => Some(v),
            Err(_) => {
                *self = TimedExec::new();
                None
            },
        }
    }
}
